"""C15 — the store stays well-formed and failed requests leave it untouched.

Theorems: lean/Props/C15.lean (an error status decides on no update; reads change nothing),
lean/Props/C15Inv.lean: the inductive well-formedness invariant (`c15_wellformed_always`) over every history of requests,
under the hypothesis that the policy never grants `w` on the root (finding F15, exhibited as a theorem).
Correspondence: request histories biased towards invalid requests against the real application and the
model (status, store dump after every request).  Oracle independent of the model: a request answered with
4xx/5xx leaves the API dump *and* the bytes of the collection tree unchanged (home creation aside); after every
request no collection holds two objects with one UID, no calendar / address book has a child collection,
and the offline verifier succeeds.
"""
import davsim
from common import App, disk_snapshot

PROP_FILES = ["Props/C15.lean", "Props/C15Inv.lean"]
LEVEL = "proof"

INVALID_BODIES = [
    ("broken RRULE", "BEGIN:VCALENDAR\r\nVERSION:2.0\r\nPRODID:x\r\nBEGIN:VEVENT\r\nUID:bad1\r\nDTSTAMP:20240101T000000Z\r\nDTSTART:20240102T100000Z\r\nRRULE:FREQ=NEVER;COUNT=x\r\nEND:VEVENT\r\nEND:VCALENDAR\r\n"),
    ("missing UID", "BEGIN:VCALENDAR\r\nVERSION:2.0\r\nPRODID:x\r\nBEGIN:VEVENT\r\nDTSTAMP:20240101T000000Z\r\nDTSTART:20240102T100000Z\r\nEND:VEVENT\r\nEND:VCALENDAR\r\n"),
    ("two objects", "BEGIN:VCALENDAR\r\nVERSION:2.0\r\nPRODID:x\r\nBEGIN:VEVENT\r\nUID:t1\r\nDTSTAMP:20240101T000000Z\r\nDTSTART:20240102T100000Z\r\nEND:VEVENT\r\nEND:VCALENDAR\r\nBEGIN:VCALENDAR\r\nVERSION:2.0\r\nPRODID:x\r\nBEGIN:VEVENT\r\nUID:t2\r\nDTSTAMP:20240101T000000Z\r\nDTSTART:20240102T100000Z\r\nEND:VEVENT\r\nEND:VCALENDAR\r\n"),
    ("event and todo with one UID", "BEGIN:VCALENDAR\r\nVERSION:2.0\r\nPRODID:x\r\nBEGIN:VEVENT\r\nUID:k\r\nDTSTAMP:20240101T000000Z\r\nDTSTART:20240102T100000Z\r\nEND:VEVENT\r\nBEGIN:VTODO\r\nUID:k\r\nDTSTAMP:20240101T000000Z\r\nEND:VTODO\r\nEND:VCALENDAR\r\n"),
    ("truncated", "BEGIN:VCALENDAR\r\nBEGIN:VEVENT\r\nUID:x"),
    ("vcard without UID", "BEGIN:VCARD\r\nVERSION:3.0\r\nFN:x\r\nN:x;;;;\r\nEND:VCARD\r\n"),
    ("not a calendar at all", "hello world"),
]

INVALID_XML = ["<notxml", "<?xml version=\"1.0\"?><a><b></a>", "", "<D:mkcol xmlns:D=\"DAV:\"><D:set><D:prop><D:resourcetype><D:collection/><X:unknown xmlns:X=\"x:\"/></D:resourcetype></D:prop></D:set></D:mkcol>"]


def wellformed(dump):
    """list of complaints about a storage API dump"""
    bad = []
    tagged = [e["path"] for e in dump if e["tag"]]
    for e in dump:
        uids = [i["uid"] for i in e["items"]]
        if len(uids) != len(set(uids)):
            bad.append("collection /%s holds two objects with one UID: %s" % ("/".join(e["path"]), sorted(uids)))
        for t in tagged:
            if len(e["path"]) > len(t) and e["path"][:len(t)] == t:
                bad.append("collection /%s lies inside the calendar / address book /%s" % ("/".join(e["path"]), "/".join(t)))
        if not e["tag"] and e["items"]:
            bad.append("plain collection /%s holds items" % "/".join(e["path"]))
        for i in e["items"]:
            want = {"VCALENDAR": ("VCALENDAR",), "VADDRESSBOOK": ("VCARD", "VLIST")}.get(e["tag"])
            if want and i.get("name") and i["name"] not in want:
                bad.append("%s /%s holds the %s object %s" % ({"VCALENDAR": "calendar", "VADDRESSBOOK": "address book"}[e["tag"]],
                                                               "/".join(e["path"]), i["name"], i["href"]))
    return bad


def run_history(ctx, rng, length, hid):
    # half of the histories run under an owner-style policy: letters on the collection paths only, nothing on the
    # paths of items (what owner_only / authenticated give) — the handlers' pre-lock guesses differ between the two
    if rng.random() < 0.5:
        sim = davsim.Sim(ctx, rights_default="", rights_table={("u", tuple(p)): "RrWw" for p in davsim.COLLS if p[:1] == ["u"]})
    else:
        sim = davsim.Sim(ctx)
    known = []
    reqs = []
    pre = davsim.warmup(rng) if rng.random() < 0.6 else []
    try:
        for i in range(length):
            user = "u"
            extra = rng.random() < 0.25 and not pre
            before_dump = sim.real_dump()
            before_disk = disk_snapshot(sim.app.folder)
            if extra:
                # requests outside the model's vocabulary: must fail and change nothing
                kind = rng.random()
                target = "/" + "/".join(rng.choice(davsim.COLLS[1:6])) + "/"
                if kind < 0.6:
                    name, body = rng.choice(INVALID_BODIES)
                    path = target + rng.choice(davsim.HREFS) if rng.random() < 0.7 else target
                    st, _, _ = sim.app.request("PUT", path, body, login="u:pw", CONTENT_TYPE=rng.choice(["text/calendar", "text/vcard", ""]))
                    desc = {"method": "PUT", "path": path, "body": name}
                else:
                    m = rng.choice(["MKCOL", "MKCALENDAR", "PROPPATCH", "PROPFIND", "REPORT"])
                    body = rng.choice(INVALID_XML)
                    st, _, _ = sim.app.request(m, target, body, login="u:pw")
                    desc = {"method": m, "path": target, "body": body[:40]}
                reqs.append(desc)
                ctx.case("invalid:%s:%d" % (desc["method"], st), sample=dict(desc, status=st), key=[hid, i], nontrivial=st >= 400)
                # the model is not stepped; whatever happened must be the identity or a legal success
                after_dump = sim.real_dump()
                def no_home(d):
                    return [e for e in d if e["path"] != ["u"]]
                home_before = [e for e in before_dump if e["path"] == ["u"]]
                if st >= 400 and (no_home(after_dump) != no_home(before_dump) or
                                  (home_before and [e for e in after_dump if e["path"] == ["u"]] != home_before)):
                    ctx.violation("request answered %d changed the store" % st, {"history": reqs}, "unchanged", "changed")
                if st >= 400:
                    after_disk = disk_snapshot(sim.app.folder)
                    chg = {k for k in set(before_disk) | set(after_disk) if before_disk.get(k) != after_disk.get(k)} - {"u"}
                    if chg:
                        ctx.violation("request answered %d changed files of the collection tree: %s" % (st, sorted(chg)[:4]), {"history": reqs})
                if st < 400 and after_dump != before_dump and sim.sid is not None:
                    # a success outside the vocabulary desynchronises model and implementation: end this history
                    return
                continue
            r = pre.pop(0) if pre else davsim.gen_request(rng, sim, known)
            reqs.append(r)
            obs, ans, diffs = sim.step(r, user)
            if "etag_raw" in obs:
                known.append(obs["etag_raw"])
                known[:] = known[-10:]
            st = obs["status"]
            ctx.case("%s:%d" % (r["method"], st), sample={"request": {k: v for k, v in r.items() if k != "objs"}, "status": st},
                     key=[hid, i], nontrivial=st >= 400)
            after_dump = sim.real_dump()
            if st >= 400:
                # home creation is the only allowed difference
                def no_home(d):
                    return [e for e in d if e["path"] != ["u"]]
                home_before = [e for e in before_dump if e["path"] == ["u"]]
                home_after = [e for e in after_dump if e["path"] == ["u"]]
                if no_home(after_dump) != no_home(before_dump) or (home_before and home_after != home_before):
                    ctx.violation("request answered %d changed the store" % st, {"history": reqs}, "unchanged", "changed")
                after_disk = disk_snapshot(sim.app.folder)
                chg = {k for k in set(before_disk) | set(after_disk) if before_disk.get(k) != after_disk.get(k)} - {"u"}
                if chg:
                    ctx.violation("request answered %d changed files of the collection tree: %s" % (st, sorted(chg)[:4]), {"history": reqs})
            for c in wellformed(after_dump):
                ctx.violation("store not well-formed: " + c, {"history": reqs})
            # a collection that holds something never changes its type (its members were validated for the old one)
            tb = {tuple(e["path"]): e for e in before_dump}
            for e in after_dump:
                b = tb.get(tuple(e["path"]))
                if b is not None and b["tag"] != e["tag"] and r["method"] not in ("PUT", "DELETE", "MKCOL", "MKCALENDAR"):
                    ctx.violation("%s changed the type of the existing collection /%s from %r to %r" % (r["method"], "/".join(e["path"]), b["tag"], e["tag"]),
                                  {"history": reqs})
            if diffs:
                ctx.disagree("request history vs model", {"history": reqs}, diffs[:3], ans["status"] if ans else None)
                return
        try:
            ok = sim.app.storage.verify()
        except Exception as e:
            ok = False
        if not ok:
            ctx.violation("storage verifier fails after the history", {"history": reqs})
    finally:
        sim.close()


EMPTY_CAL = "BEGIN:VCALENDAR\r\nVERSION:2.0\r\nPRODID:x\r\nEND:VCALENDAR\r\n"


def witnesses(ctx):
    """F19: an empty VCALENDAR is accepted as a calendar object resource"""
    sim = davsim.Sim(ctx)
    try:
        sim.app.request("MKCALENDAR", "/u/c1/", login="u:pw")
        st, _, _ = sim.app.request("PUT", "/u/c1/empty.ics", EMPTY_CAL, login="u:pw", CONTENT_TYPE="text/calendar")
        ctx.case("witness:F19", sample={"status": st}, key="F19", nontrivial=True)
        if st == 201:
            ctx.violation("an empty VCALENDAR (no component, no UID) is stored as a member of a calendar", {"body": EMPTY_CAL},
                          "4xx", st, finding="F19")
    finally:
        sim.close()


NONASCII = ("BEGIN:VCALENDAR\r\nVERSION:2.0\r\nPRODID:x\r\nBEGIN:VEVENT\r\nUID:%s\r\nDTSTAMP:20240101T000000Z\r\nDTSTART:20240102T100000Z\r\n"
            "SUMMARY:caf\u00e9 \u2603 %s\r\nEND:VEVENT\r\nEND:VCALENDAR\r\n")
ASCII_EV = NONASCII.replace("caf\u00e9 \u2603", "plain")


def encoding_level(ctx):
    """a storage encoding that cannot represent an uploaded object ([encoding] stock = ascii / latin-1): the request fails and must
    leave nothing behind — neither under a new name nor over an existing one, for single objects and whole collections"""
    rng = ctx.rng("encoding")
    for rnd in range(ctx.n(6, 200)):
        stock = rng.choice(["ascii", "ascii", "latin-1", "utf-8"])
        with App({"auth": {"type": "none"}, "encoding": {"stock": stock}}) as app:
            app.request("MKCALENDAR", "/u/c/", login="u:pw")
            app.request("PUT", "/u/c/old.ics", ASCII_EV % ("old", "0"), login="u:pw", CONTENT_TYPE="text/calendar")
            hist = []
            for i in range(rng.randint(2, 6)):
                k = rng.random()
                if k < 0.4:
                    r = ("PUT", "/u/c/new%d.ics" % i, NONASCII % ("n%d" % i, i))
                elif k < 0.6:
                    r = ("PUT", "/u/c/old.ics", NONASCII % ("old", i))
                elif k < 0.8:
                    r = ("PUT", "/u/w%d/" % i, "BEGIN:VCALENDAR\r\nVERSION:2.0\r\nPRODID:x\r\n" +
                         "".join((NONASCII if j == 1 else ASCII_EV).split("PRODID:x\r\n")[1].rsplit("END:VCALENDAR", 1)[0] % ("w%d_%d" % (i, j), j)
                                 for j in range(3)) + "END:VCALENDAR\r\n")
                else:
                    r = ("PUT", "/u/c/new%d.ics" % i, ASCII_EV % ("a%d" % i, i))
                before = disk_snapshot(app.folder)
                st, _, _ = app.request(r[0], r[1], r[2], login="u:pw", CONTENT_TYPE="text/calendar")
                after = disk_snapshot(app.folder)
                hist.append({"method": r[0], "path": r[1], "non_ascii": "caf" in r[2], "status": st})
                case = {"stock_encoding": stock, "history": list(hist)}
                ctx.case("encoding:%s:%s" % (stock, "error" if st >= 400 else "ok"), sample=case, key=[rnd, i], nontrivial=st >= 400)
                if st >= 400:
                    chg = {k2 for k2 in set(before) | set(after) if before.get(k2) != after.get(k2)}
                    if chg:
                        ctx.violation("request answered %d changed files of the collection tree: %s" % (st, sorted(chg)[:4]), case)
                st2, _, _ = app.request("PROPFIND", "/u/c/", login="u:pw", HTTP_DEPTH="1")
                if st2 != 207:
                    ctx.violation("after a request answered %d the calendar can no longer be listed (PROPFIND %d)" % (st, st2), case)
            try:
                ok = app.storage.verify()
            except Exception:
                ok = False
            if not ok:
                ctx.violation("storage verifier fails after the history", case)


def run(ctx):
    ctx.extra["rule"] = ("histories of 5-40 requests, a quarter of them outside the valid vocabulary (broken RRULE, missing UID, several objects, "
                         "mixed types per UID, truncated bodies, malformed XML, unknown resource types), the rest from the C01 generator (wrong "
                         "component type, duplicate UIDs, MOVE onto conflicts, bad whole-collection uploads); non-trivial = answered with an error")
    ctx.trusted += ["harness/davsim.py", "vobject as the judge of 'valid for the collection type' inside verify()"]
    witnesses(ctx)
    encoding_level(ctx)
    rng = ctx.rng("hist")
    for h in range(ctx.n(50, 4000)):
        run_history(ctx, rng, rng.randint(5, 40), h)
