"""C02 — modifying requests are all-or-nothing under crashes and I/O errors.

Theorems: lean/Props/C02.lean (every storage call's trace has one commit point; every prefix of it abstracts
to the state before or after).  Tie: (a) the data projection of the real syscall log equals the model trace
and the model names exactly one commit in it; (b) the real process is killed (exit_group, no clean-up) right
before every mutating system call of the request in turn, the folder is re-opened by a fresh Application,
dumped through the storage API and must equal the before- or after-state as the model's commit position
predicts; verify() passes and follow-up requests are served; (c) every mutating call made to fail with
ENOSPC/EACCES/EIO: same, and a request answered with success is in the after-state.
"""
import errno
import json
import os
import shutil
import tempfile

import interposer
interposer.reexec_with_preload()

import fsobs  # noqa: E402
import scenarios  # noqa: E402
from common import App, dump_store, permissive_rights  # noqa: E402

PROP_FILES = ["Props/C02.lean"]
LEVEL = "proof"

CONF = {"storage": {"_filesystem_fsync": "True"}, "auth": {"type": "none"}}


EXTRA = {}          # storage options of the configuration variant under test (set by run)


def conf():
    return dict(CONF, storage=dict(CONF["storage"], **EXTRA), rights=permissive_rights())


def hidden(p):
    return any(c.startswith(".") and c != ".Radicale.props" for c in p)


def commit_ordinal(entries, folder):
    """1-based ordinal, among the mutating calls, of the first call that changes what clients can see"""
    n = 0
    for e in entries:
        if e["op"] not in interposer.MUTATING:
            continue
        n += 1
        if e["op"] in ("rename", "exchange", "unlink", "rmdir", "mkdir") and e["detail"] == "ok":
            p = fsobs.rel(folder, e["path"])
            q = fsobs.rel(folder, e["path2"]) if e["path2"] else None
            if p is None or p[:1] != ["collection-root"] or fsobs.is_cache(p):
                continue
            target = q if e["op"] in ("rename", "exchange") else p
            if target is not None and not hidden(target):
                return n
            if e["op"] in ("rename", "exchange") and not hidden(p):
                return n
    return None


def child_run(folder, kind, mode, k, err, out_path):
    """runs in a forked child: arm the interposer, serve the request, report the status"""
    method, path, body, env, login, calls, expect = kind
    try:
        app = App(conf(), folder=folder)
        log = out_path + ".log"
        interposer.start(log)
        interposer.inject(mode, k, err)
        st, _, _ = app.request(method, path, body, login=login, **env)
        interposer.inject(0, 0, 0)
        interposer.stop()
        same = None
        if mode == 2:
            # the process that met the I/O error goes on serving: its lock bookkeeping, caches and file handles must be in order
            # (reads only, so that the state the parent examines is the one the faulted request left)
            user = login.split(":")[0]
            same = [app.request("PROPFIND", "/%s/" % user, HTTP_DEPTH="1", login=login)[0],
                    app.request("GET", "/", login=login)[0],
                    app.request("PROPFIND", "/%s/" % user, HTTP_DEPTH="0", login=login)[0]]
        with open(out_path, "w") as f:
            json.dump({"status": st, "same_process": same}, f)
    except BaseException as e:  # noqa
        try:
            with open(out_path, "w") as f:
                json.dump({"exception": repr(e)}, f)
        except Exception:
            pass
    os._exit(0)


def followup_ok(app, login):
    user = login.split(":")[0]
    st1, _, _ = app.request("MKCALENDAR", "/%s/followup/" % user, login=login)
    st2, _, _ = app.request("PUT", "/%s/followup/f.ics" % user, scenarios.ev("followup"), login=login)
    st3, _, _ = app.request("PROPFIND", "/%s/" % user, HTTP_DEPTH="1", login=login)
    return [st1, st2, st3] == [201, 201, 207], [st1, st2, st3]


def examine(ctx, folder, before, after, predicted, case, status=None):
    """state left behind must be before/after as predicted; verifier passes; storage not wedged"""
    with App(conf(), folder=folder) as app:
        try:
            got = dump_store(app)
        except Exception as e:
            ctx.violation("storage cannot be read after the interruption: %r" % e, case)
            return
        side = "before" if got == before else "after" if got == after else None
        if side is None:
            ctx.violation("state after the interruption is neither the state before nor after the request", case,
                          {"before": sorted(before), "after": sorted(after)}, {k: sorted(v["items"]) for k, v in got.items()})
            return
        if before != after and predicted is not None and side != predicted:
            ctx.disagree("which side of the commit point the interrupted request ends on", case, side, predicted)
        if status is not None and 200 <= status < 300 and got != after:
            ctx.violation("request answered %d but the store is not in the after-state" % status, case, "after", side)
        try:
            ok = app.storage.verify()
        except Exception as e:
            ok = False
        if not ok:
            ctx.violation("storage verifier fails after the interruption", case)
        fine, sts = followup_ok(app, case.get("login", scenarios.LOGIN))
        if not fine:
            ctx.violation("follow-up requests are not served normally after the interruption: %s" % sts, case)
    return side


def tree(folder):
    """{path (tuple of components relative to the storage folder): 'dir' | 'file'} of the collection tree"""
    out = {}
    root = os.path.join(folder, "collection-root")
    for d, dirs, files in os.walk(root):
        relp = tuple(os.path.relpath(d, folder).split(os.sep))
        out[relp] = "dir"
        for f in files:
            out[relp + (f,)] = "file"
    return out


def fs_effect(ctx, case, before, after, ops):
    """the model file system (`Trace.apply`, the semantics the effect theorems of Props/C01 and the crash theorems of Props/C02
    are about) after the model trace, against the real tree after the request, at every visible path that could exist"""
    cand = set(before) | set(after)
    for o in ops:
        cand.add(tuple(o["p"]))
        if "q" in o:
            cand.add(tuple(o["q"]))
    for _ in range(2):
        for o in ops:
            if o["op"] in ("rename", "exchange"):
                a, b = tuple(o["p"]), tuple(o["q"])
                for c in list(cand):
                    if c[:len(a)] == a:
                        cand.add(b + c[len(a):])
                    if c[:len(b)] == b:
                        cand.add(a + c[len(b):])
    cand = sorted(cand)
    # temporary names were renumbered in the trace; the real tree has none left after the request
    a = ctx.driver.ask1({"m": "trace", "op": "apply", "fs": [[list(p), k] for p, k in sorted(before.items())], "ops": ops,
                         "queries": [list(c) for c in cand]})
    diffs = []
    for c, node, hid in zip(cand, a["nodes"], a["hidden"]):
        if hid or fsobs.is_cache(list(c)) or fsobs.is_lock(list(c)):
            continue
        if node != after.get(c):
            diffs.append(["/".join(c), after.get(c), node])
    ctx.case("fs-effect", sample=dict(case, paths=len(cand)), key=["fs", case], nontrivial=before != after)
    if diffs:
        ctx.disagree("visible tree after the request vs the model file system after the model trace", case,
                     [d[:2] for d in diffs[:6]], [[d[0], d[2]] for d in diffs[:6]])


def one_kind(ctx, name, kind, shape, errnos, template_root):
    method, path, body, env, login, calls, expect = kind
    template = os.path.join(template_root, "tpl-%s-%d" % (name, shape))
    with App(conf(), folder=template) as app:
        scenarios.build_store(app, shape)
        before = dump_store(app)
    # reference run on a copy
    ref = os.path.join(template_root, "ref")
    shutil.copytree(template, ref)
    rec = fsobs.Recorder()
    with App(conf(), folder=ref) as app:
        rec.start()
        st, _, _ = app.request(method, path, body, login=login, **env)
        ent, muts = rec.stop()
        after = dump_store(app)
    rec.close()
    proj = fsobs.data_projection(ent, ref)
    commit = commit_ordinal(ent, ref)
    tree_before = tree(template)
    tree_after = tree(ref)
    shutil.rmtree(ref)
    base_case = {"request": name, "store_shape": shape, "login": login}
    if EXTRA:
        base_case["storage_options"] = dict(EXTRA)
    if st != expect:
        ctx.violation("reference run of %s answered %s" % (name, st), base_case, expect, st)
        return
    if ctx.driver:
        mops, commits, _ = scenarios.model_trace(ctx.driver, calls, True, cache_in_coll=EXTRA.get("use_cache_subfolder_for_item") != "True")
        if mops != proj:
            ctx.disagree("data projection of the syscall log vs model trace", base_case, proj, mops)
        if len(commits) != 1:
            ctx.broke("C02.OneCommit: model trace of %s has %d commit points" % (name, len(commits)))
        fs_effect(ctx, base_case, tree_before, tree_after, mops)
    ctx.extra.setdefault("mutating_calls_per_request", {})[name] = muts
    for mode, err in [(1, 0)] + [(2, e) for e in errnos]:
        for k in range(1, muts + 2):
            d = os.path.join(template_root, "run")
            shutil.copytree(template, d)
            out = os.path.join(template_root, "out.json")
            if os.path.exists(out):
                os.unlink(out)
            pid = os.fork()
            if pid == 0:
                child_run(d, kind, mode, k, err, out)
            _, wstatus = os.waitpid(pid, 0)
            crashed = os.WIFEXITED(wstatus) and os.WEXITSTATUS(wstatus) == 137
            status = None
            same = None
            if os.path.exists(out):
                try:
                    rep = json.load(open(out))
                    status, same = rep.get("status"), rep.get("same_process")
                except Exception:
                    status = None
            case = dict(base_case, mode="crash" if mode == 1 else "fault:%s" % errno.errorcode[err], at_mutating_call=k, of=muts)
            predicted = None
            if mode == 1:
                predicted = "after" if (commit is not None and k > commit) else "before"
                if k <= muts and not crashed:
                    ctx.disagree("crash point %d not reached (request made fewer mutating calls than the reference run)" % k, case, "no crash", "crash")
            ctx.case("%s|%s" % (name, "crash" if mode == 1 else errno.errorcode[err]), sample=case, key=case,
                     nontrivial=(k <= muts))
            if same is not None and any(x >= 500 for x in same):
                ctx.violation("after the I/O error (request answered %s) the same server process no longer serves reads: PROPFIND Depth 1 / GET / "
                              "PROPFIND Depth 0 answered %s - the storage is left locked or wedged" % (status, same), case)
            examine(ctx, d, before, after, predicted, case, status=(None if mode == 1 else status))
            shutil.rmtree(d, ignore_errors=True)
            for f in (out, out + ".log"):
                if os.path.exists(f):
                    os.unlink(f)
    shutil.rmtree(template, ignore_errors=True)


def run(ctx):
    ctx.level = "proof"
    ctx.extra["rule"] = ("for each modifying request type on a populated store: a crash (exit_group) immediately before each mutating "
                         "system call k = 1..n+1, and each call failed with ENOSPC/EACCES/EIO; a case = (request, store shape, mode, k); "
                         "non-trivial = the injection point is inside the request; exhaustive over k for the listed request types")
    ctx.trusted += ["interpose/interpose.c (crash = exit_group before the call; fault = errno without executing the call)",
                    "kernel: rename/RENAME_EXCHANGE/unlink/mkdir/rmdir are atomic; flock dies with the process"]
    ctx.assumptions += ["RENAME_EXCHANGE available on the storage file system (checked: the exchange op is observed)",
                        "crashing only at mutating calls is complete: the on-disk state is constant between two of them"]
    kinds = scenarios.kinds()
    quick = ["put_new", "put_overwrite", "put_whole_replace", "delete_calendar", "move_across", "proppatch", "mkcalendar", "first_login", "delete_item"]
    names = quick if ctx.tier == "quick" else list(kinds)
    shapes = [0] if ctx.tier == "quick" else [0, 2]
    root = tempfile.mkdtemp(prefix="rverif-c02-")
    try:
        for shape in shapes:
            for name in names:
                if ctx.tier == "quick":
                    errnos = {"put_new": [errno.ENOSPC], "put_whole_replace": [errno.ENOSPC, errno.EACCES], "delete_calendar": [errno.ENOSPC],
                              "put_overwrite": [errno.EACCES, errno.EIO], "proppatch": [errno.EACCES], "mkcalendar": [errno.EACCES],
                              "move_across": [errno.EIO]}.get(name, [])
                else:
                    errnos = [errno.ENOSPC, errno.EACCES, errno.EIO]
                one_kind(ctx, name, kinds[name], shape, errnos, root)
        # the same under other storage options (cache keying and layout change what a request does around its commit point)
        variants = [({"use_mtime_and_size_for_item_cache": "True"}, ["move_overwrite", "put_overwrite"]),
                    ({"use_cache_subfolder_for_item": "True", "use_cache_subfolder_for_history": "True", "use_cache_subfolder_for_synctoken": "True"},
                     ["put_whole_replace", "move_across"])]
        for extra, vnames in variants:
            EXTRA.clear()
            EXTRA.update(extra)
            try:
                for name in (vnames if ctx.tier == "quick" else list(kinds)):
                    one_kind(ctx, name, kinds[name], shapes[0], [errno.EIO] if ctx.tier == "quick" else [errno.ENOSPC, errno.EACCES, errno.EIO], root)
            finally:
                EXTRA.clear()
        ctx.extra["exhaustive"] = True
    finally:
        shutil.rmtree(root, ignore_errors=True)
