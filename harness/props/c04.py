"""C04 — built-in rights back-ends grant exactly the documented permissions.

Theorems: lean/Props/C04.lean.  Correspondence of `Rights.authorization(user, path)` of the loaded back-ends
with the model: (a) the three closed back-ends, exhaustively over a small scope and on random names/paths,
auth type none vs real; (b) from_file on rights files drawn from the rule grammar; (c) the regex engine of
the model against Python `re` (parse-ability, full-match result, capture groups); (d) re.escape / str.format.
Oracles independent of the Lean model: the documentation tables for (a); for (b) the first section that
full-matches when user name and groups are substituted as \\UXXXXXXXX literals.
"""
import itertools
import os
import re
import tempfile

PROP_FILES = ["Props/C04.lean"]
LEVEL = "proof"


def chars(s):
    return [ord(c) for c in s]


def unchars(a):
    return "".join(chr(x) for x in a)


def load_rights(kind, auth_type, file=None):
    from radicale import config, rights
    from common import quiet_radicale
    quiet_radicale()
    conf = config.load()
    c = {"rights": {"type": kind}, "auth": {"type": auth_type}}
    if file:
        c["rights"]["file"] = file
    conf.update(c, "verif", privileged=True)
    return rights.load(conf)


def doc_table(kind, verify, user, path):
    """the documentation, written down independently: returns the set of letters"""
    p = path.strip("/")
    comps = p.split("/") if p else []
    if verify and not user:
        return ""
    depth = len(comps)
    if kind == "authenticated":
        return "RW" if depth <= 1 else "rw" if depth == 2 else ""
    own = (not verify) or (depth >= 1 and comps[0] == user)
    if depth == 0:
        return "R"
    if kind == "owner_only":
        if not own:
            return ""
        return "RW" if depth == 1 else "rw" if depth == 2 else ""
    if kind == "owner_write":
        if depth == 1:
            return "RW" if own else "R"
        if depth == 2:
            return "rw" if own else "r"
        return ""


ALPHA = ["a", "b", "A", ".", "*", "@"]


def builtin(ctx):
    from radicale import pathutils
    names = [""] + ["".join(t) for n in (1, 2) for t in itertools.product(ALPHA, repeat=n)]
    if ctx.tier == "thorough":
        names += ["".join(t) for t in itertools.product(ALPHA, repeat=3)]
    comps = [n for n in names if n and pathutils.is_safe_path_component(n)]
    comps_small = comps[:12] + ["a.b", "ab", "a@b"]
    paths = ["/"]
    for d in (1, 2, 3, 4):
        pool = comps if d == 1 else comps_small[:6] if d < 4 else comps_small[:3]
        for t in itertools.product(*([comps if d == 1 else comps_small[:8]] + [pool[:5]] * (d - 1))):
            paths.append("/" + "/".join(t) + "/")
    paths = sorted(set(paths))
    rng = ctx.rng("builtin")
    if ctx.tier != "thorough":
        paths = [p for p in paths if p.count("/") <= 3] + rng.sample([p for p in paths if p.count("/") > 3], 150)
    total = 0
    for kind in ("authenticated", "owner_only", "owner_write"):
        for auth_type in ("none", "htpasswd", "remote_user", "http_x_remote_user", "denyall"):
            verify = auth_type != "none"
            r = load_rights(kind, auth_type)
            reqs = []
            impls = []
            for user in names:
                for path in paths:
                    impls.append((user, path, r.authorization(user, path)))
                    reqs.append({"m": "rights", "op": "builtin", "backend": kind, "verify": verify,
                                 "user": chars(user), "path": chars(path)})
            ans = ctx.driver.ask(reqs) if ctx.driver else [None] * len(reqs)
            for (user, path, impl), a in zip(impls, ans):
                total += 1
                doc = doc_table(kind, verify, user, path)
                case = {"backend": kind, "auth": auth_type, "user": user, "path": path}
                ctx.case("builtin:%s:%s" % (kind, auth_type), sample=dict(case, perms=impl), key=case,
                         nontrivial=bool(user) and path != "/")
                if set(impl) != set(doc) or len(impl) != len(doc):
                    ctx.violation("%s grants %r where the documentation says %r" % (kind, impl, doc), case, doc, impl)
                if a is not None and unchars(a["r"]) != impl:
                    ctx.disagree("builtin back-end vs model", case, impl, unchars(a["r"]))
    ctx.extra["builtin_exhaustive_scope"] = {"names": len(names), "paths": len(paths), "evaluations": total}


# ---- rule grammar --------------------------------------------------------------------------------------

ATOMS = ["a", "b", "x", "\\.", "\\*", "@", "-", ".", "[^/]", "[a-c]", "[^@]", "\\d", "\\w", "/", "_"]


def gen_re(rng, depth=0, groups=True):
    n = rng.randint(1, 4)
    out = []
    for _ in range(n):
        k = rng.random()
        if k < 0.55 or depth >= 2:
            a = rng.choice(ATOMS)
        elif k < 0.75 and groups:
            a = "(" + gen_re(rng, depth + 1, groups) + ")"
        elif k < 0.85:
            a = "(?:" + gen_re(rng, depth + 1, groups) + "|" + gen_re(rng, depth + 1, groups) + ")"
        else:
            a = rng.choice([".*", ".+", "[^/]+", "[^/]*"])
        q = rng.random()
        if q < 0.15 and not a.endswith(("*", "+")):
            a += rng.choice(["*", "+", "?"])
        out.append(a)
    return "".join(out)


USER_PATS = [".+", ".*", "", "(.+)@(.+)", "(.+)@example\\.com", ".+@(.+)", ".+@([^@]+)", "admin", "a.*", "[ab].*", "(a|b)(.*)", "(.*)\\.(.*)", "{{", "x{0}"]
COLL_TPLS = ["", "{user}", "{user}/[^/]+", "{user}/.*", "{0}", "{0}/[^/]+", "{1}/{0}", ".*", "shared/.*", "{user}(/.*)?",
             "[^/]+", "{0}|{user}", "{{user}}", "x{user}y", "{user}{user}", "{}", "{}/{}", ".*{user}.*", "{user", "user}",
             "{1}/{user}(/.*)?", "{0}/{user}", "{user}/{0}", "{0}/{user}(/.*)?"]
USERS = ["", "alice", "bob", "a", "ab", ".*", ".+", "a.c", "abc", "a|b", "(a)", "a@example.com", "bob@example.com", "x@y",
         "a+b", "[a]", "a\\b", "a b", "A", "admin", "{user}", "{0}", "a*", "é", "a/b", "^a$", "a?", "b.b@example.xcom", "alice@example.com"]
PERMS = ["RW", "rw", "R", "r", "RrWw", "", "i", "RWrwDO"]


def gen_rules(rng):
    n = rng.randint(1, 5)
    rules = []
    for _ in range(n):
        up = rng.choice(USER_PATS) if rng.random() < 0.7 else gen_re(rng)
        cp = rng.choice(COLL_TPLS) if rng.random() < 0.75 else gen_re(rng, groups=False)
        rules.append({"user": up, "coll": cp, "perms": rng.choice(PERMS)})
        if up not in USER_PATS or cp not in COLL_TPLS:
            rules[-1]["generated"] = True
    return rules


def write_rights_file(rules):
    f = tempfile.NamedTemporaryFile("w", suffix=".rights", delete=False)
    for i, r in enumerate(rules):
        f.write("[rule%d]\n" % i)
        if r["user"] is not None:
            f.write("user: %s\n" % r["user"])
        f.write("collection: %s\n" % r["coll"])
        f.write("permissions: %s\n\n" % r["perms"])
    f.close()
    return f.name


def ini_safe(s):
    # configparser strips values and treats leading/trailing blanks, '%' is fine (no interpolation issue with ConfigParser? it is BasicInterpolation)
    return s == s.strip() and "%" not in s and "\n" not in s and not s.startswith(("#", ";"))


def lit(s):
    return "".join("\\U%08x" % ord(c) for c in s)


def oracle_from_file(rules, user, path):
    """first section that full-matches with literal substitution; 'error' if a reached section is broken"""
    p = path.strip("/")
    for r in rules:
        try:
            if r["user"] == "":
                continue
            um = re.fullmatch(r["user"].format(), user)
            if not um:
                continue
            if any(g is None for g in um.groups()):
                return "error"
            cm = re.fullmatch(r["coll"].format(*(lit(g) for g in um.groups()), user=lit(user)), p)
        except Exception:
            return "error"
        if cm:
            return r["perms"]
    return ""


def from_file(ctx):
    from radicale import pathutils
    rng = ctx.rng("from_file")
    n = ctx.n(500, 20000)
    paths_pool = ["/", "/alice/", "/bob/", "/alice/cal/", "/bob/cal/", "/.*/", "/.*/x/", "/a/", "/a/b/", "/a/b/c/", "/shared/x/",
                  "/a.c/", "/abc/", "/a|b/", "/(a)/", "/a@example.com/", "/example.com/a/", "/y/x/", "/a+b/", "/a\\b/",
                  "/alice/cal/sub/", "/xay/", "/aa/", "/alicealice/", "/a b/", "/é/", "/{user}/", "/a*/", "/aaa/", "/a?/", "/^a$/"]
    discarded = 0
    for i in range(n):
        rules = gen_rules(rng)
        if rng.random() < 0.15:
            # the documented multi-domain shape: the domain is captured, the collection pattern uses it together with {user}
            rules.insert(rng.randint(0, len(rules)), {"user": rng.choice([".+@(.+)", ".+@([^@]+)"]),
                                                      "coll": rng.choice(["{0}/{user}(/.*)?", "{0}/{user}", "{0}/{user}/[^/]+"]), "perms": "RW"})
        if not all(ini_safe(r["user"]) and ini_safe(r["coll"]) for r in rules):
            discarded += 1
            continue
        fn = write_rights_file(rules)
        try:
            r = load_rights("from_file", "htpasswd", fn)
            users = rng.sample(USERS, 6)
            paths = rng.sample(paths_pool, 6)
            # (only with rules from the fixed lists: generated patterns with nested quantifiers need exponential time on longer strings)
            if not any(x.get("generated") for x in rules) and (rng.random() < 0.3 or any(x["user"] in (".+@(.+)", ".+@([^@]+)") for x in rules)):
                # users that share what a `user` pattern captures (same domain), asked one after the other on one Rights object
                users = ["a@example.com", "bob@example.com", "alice@example.com"] + users[:3]
                paths = ["/example.com/bob@example.com/", "/example.com/a@example.com/x/", "/example.com/alice@example.com/", "/a@example.com/example.com/"] + paths[:3]
            if any("\\w" in x["user"] + x["coll"] or "\\d" in x["user"] + x["coll"] for x in rules):
                users = [u for u in users if u.isascii()]
                paths = [p for p in paths if p.isascii()]
            reqs = []
            impls = []
            for u in users:
                if "/" in u:
                    continue
                for p in paths:
                    try:
                        impl = r.authorization(u, p)
                    except RuntimeError:
                        impl = "error"
                    impls.append((u, p, impl))
                    reqs.append({"m": "rights", "op": "from_file", "user": chars(u), "path": chars(p),
                                 "rules": [{"user": chars(x["user"]), "coll": chars(x["coll"]), "perms": chars(x["perms"])} for x in rules]})
            ans = ctx.driver.ask(reqs) if ctx.driver else [None] * len(reqs)
            for (u, p, impl), a in zip(impls, ans):
                case = {"rules": rules, "user": u, "path": p}
                exp = oracle_from_file(rules, u, p)
                ctx.case("from_file:" + ("error" if impl == "error" else "match" if impl else "deny"),
                         sample=dict(case, perms=impl), key=case, nontrivial=(impl not in ("", "error")))
                if impl != exp:
                    ctx.violation("from_file returns %r, first fully matching section with literal substitution gives %r" % (impl, exp),
                                  case, exp, impl)
                if a is not None:
                    if a.get("unsupported"):
                        ctx.extra["from_file_cases_outside_model_grammar"] = ctx.extra.get("from_file_cases_outside_model_grammar", 0) + 1
                        continue
                    m = "error" if a.get("error") else unchars(a["r"])
                    if m != impl:
                        ctx.disagree("from_file vs model", case, impl, m)
        finally:
            os.unlink(fn)
    ctx.extra["from_file_rule_sets_discarded_not_ini_safe"] = discarded


def regex_engine(ctx):
    rng = ctx.rng("regex")
    n = ctx.n(4000, 150000)
    subj_alpha = ["a", "b", "c", "x", ".", "*", "@", "-", "/", "_", "1", "A", "\n", "é"]
    reqs = []
    cases = []
    for i in range(n):
        pat = gen_re(rng)
        if rng.random() < 0.15:
            pat = re.escape(rng.choice(USERS)) + rng.choice(["", "/[^/]+", ".*"])
        s = "".join(rng.choice(subj_alpha) for _ in range(rng.randint(0, 6)))
        if rng.random() < 0.3:
            # make a string likely to match: strip syntax
            s = re.sub(r"\\(.)", r"\1", re.sub(r"[()?*+|\[\]^:]", "", pat))[:8]
        if "\\w" in pat or "\\d" in pat or "\\s" in pat:
            s = s.replace("é", "e")      # \w/\d/\s are modelled for ASCII subjects only
        cases.append((pat, s))
        reqs.append({"m": "rights", "op": "re", "pat": chars(pat), "s": chars(s)})
    ans = ctx.driver.ask(reqs) if ctx.driver else []
    unsupported = 0
    for (pat, s), a in zip(cases, ans):
        try:
            m = re.fullmatch(pat, s)
            impl = {"parse": True, "match": bool(m)}
            if m:
                impl["groups"] = list(m.groups())
        except re.error:
            impl = {"parse": False}
        mod = {"parse": a["parse"]}
        if a["parse"]:
            mod["match"] = a["match"]
            if a["match"]:
                mod["groups"] = [None if g is None else unchars(g) for g in a["groups"]]
        ctx.case("regex:" + ("nomatch" if not impl.get("match") else "groups" if impl.get("groups") else "match"),
                 sample={"pattern": pat, "subject": s, "result": impl}, key=[pat, s], nontrivial=bool(impl.get("match")))
        if impl["parse"] and not mod["parse"]:
            unsupported += 1
            continue
        if impl != mod:
            ctx.disagree("python re.fullmatch vs model matcher", {"pattern": pat, "subject": s}, impl, mod)
    ctx.extra["regex_patterns_outside_model_grammar"] = unsupported


def escape_format(ctx):
    rng = ctx.rng("escfmt")
    n = ctx.n(1500, 40000)
    alpha = list("ab.*+?()[]{}|^$\\-&~# \t/@_1é") + ["\n"]
    for i in range(n):
        s = "".join(rng.choice(alpha) for _ in range(rng.randint(0, 8)))
        t = s if rng.random() < 0.5 else "".join(rng.choice(alpha) for _ in range(rng.randint(0, 8)))
        impl = re.escape(s)
        full = bool(re.fullmatch(impl, t))
        ctx.case("escape", sample={"s": s, "escaped": impl}, key=[s, t], nontrivial=impl != s)
        if full != (t == s):
            ctx.violation("re.fullmatch(re.escape(s), t) is not (t == s)", {"s": s, "t": t}, t == s, full)
        if ctx.driver:
            a, b = ctx.driver.ask([{"m": "rights", "op": "escape", "s": chars(s)},
                                   {"m": "rights", "op": "re", "pat": chars(impl), "s": chars(t)}])
            if unchars(a["r"]) != impl:
                ctx.disagree("re.escape vs model", {"s": s}, impl, unchars(a["r"]))
            if not b.get("parse") or b.get("match") != full:
                ctx.disagree("fullmatch(escape(s), t) vs model", {"s": s, "t": t}, full, b)
        # str.format
        tpl = rng.choice(COLL_TPLS + USER_PATS)
        args = [rng.choice(USERS) for _ in range(rng.randint(0, 2))]
        user = rng.choice(USERS) if rng.random() < 0.8 else None
        try:
            impl_f = tpl.format(*args, user=user) if user is not None else tpl.format(*args)
        except (ValueError, IndexError, KeyError) as e:
            impl_f = {"error": {"ValueError": "value", "IndexError": "index", "KeyError": "key"}[type(e).__name__]}
        ctx.case("format", sample={"tpl": tpl, "args": args, "user": user, "result": impl_f}, key=[tpl, args, user],
                 nontrivial=isinstance(impl_f, str) and impl_f != tpl)
        if ctx.driver:
            a = ctx.driver.ask1({"m": "rights", "op": "format", "tpl": chars(tpl), "args": [chars(x) for x in args],
                                 "user": None if user is None else chars(user)})
            mod = {"error": a["error"]} if "error" in a else unchars(a["r"])
            if mod != impl_f:
                ctx.disagree("str.format vs model", {"tpl": tpl, "args": args, "user": user}, impl_f, mod)


def run(ctx):
    ctx.extra["rule"] = ("(a) all user names of length <= 2 (thorough: 3) over {a,b,A,.,*,@} x sanitised paths of depth 0-4 for the three closed "
                         "back-ends with auth none/real, exhaustive; (b) rights files from the rule grammar (ordered sections, {user}, {0}.., "
                         "{{ }}, generated regexes) x users with metacharacters x paths; (c) generated regexes x subjects against Python re; "
                         "(d) re.escape/str.format.  non-trivial = a permission was granted / the regex matched / escaping changed the string")
    ctx.trusted += ["Python re agrees with the model's regex engine on the rule grammar as far as exercised (validated, not proved)",
                    "configparser keeps section order; LDAP groups empty"]
    builtin(ctx)
    from_file(ctx)
    regex_engine(ctx)
    escape_format(ctx)
    ctx.extra["exhaustive"] = True
