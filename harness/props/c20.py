"""C20 — the built-in server bounds concurrency and request size and shuts down cleanly   (partial).

Theorems: lean/Props/C20.lean (loop invariant workers <= max for every event order, no slot leak, no accept
after shutdown, returns only when idle, Content-Length gate).
Correspondence (a): the *real* `radicale.server.serve()` main loop runs against scripted stand-ins for
`select.select`, the server class and its sockets (installed in radicale.server's namespace); a generated
environment schedule (arrivals, completions, shutdown) drives it; poll sets, accepts, reaps and the return
point are compared with the model after every event.  (b) real sockets (both tiers, small): n > max clients
against a real server with a blocking handler: the concurrent-entry counter never exceeds max, queued clients
are served, oversize bodies get 413 without reaching the handler, shutdown lets in-flight requests finish.
Not modelled, only observed: idle-client time-out, completeness of responses on the wire.
"""
import os
import socket
import threading
import time
import types

PROP_FILES = ["Props/C20.lean"]
LEVEL = "proof"


class FakeSock:
    def __init__(self, name):
        self.name = name
        self.closed = False
        self.done = False        # worker finished -> readable

    def close(self):
        self.closed = True

    def recv(self, n):
        return b""

    def __repr__(self):
        return "<%s>" % self.name


class Script:
    """environment + observer for one run of serve()"""

    def __init__(self, ctx, events, maxc, nlisten=1):
        self.ctx = ctx
        self.events = list(events)
        self.max = maxc
        self.trace = []          # model events issued so far
        self.backlogs = [0] * nlisten        # per listening socket; the model's backlog is their sum
        self.running = []        # fake worker sockets whose thread still runs
        self.listeners = [FakeSock("listener%d" % i) for i in range(nlisten)]
        self.servers = []
        self.shutdown = FakeSock("shutdown")
        self.shutdown_signalled = False
        self.accepted = 0
        self.observed = []       # per select call: what serve() polled / what we answered
        self.problems = []
        self.returned = False

    # environment events ------------------------------------------------------------------------
    @property
    def backlog(self):
        return sum(self.backlogs)

    def apply_env(self, ev):
        if isinstance(ev, tuple):
            self.backlogs[ev[1] % len(self.backlogs)] += 1
            ev = "arrive"
        elif ev == "arrive":
            self.backlogs[0] += 1
        elif ev == "finish":
            if not self.running:
                return False
            w = self.running.pop(0)
            w.done = True
        elif ev == "signal":
            self.shutdown_signalled = True
        self.trace.append(ev)
        return True

    def ready_set(self, rlist):
        r = []
        for s in rlist:
            if s in self.listeners and self.backlogs[self.listeners.index(s)] > 0:
                r.append(s)
            elif s is self.shutdown and self.shutdown_signalled:
                r.append(s)
            elif isinstance(s, FakeSock) and s.name.startswith("w") and s.done:
                r.append(s)
        return r

    def select(self, rlist, wlist, xlist, timeout=None):
        # one main-loop iteration starts here: record what is polled
        polled = [l for l in self.listeners if l in rlist]
        polls_listener = bool(polled)
        if polled and len(polled) != len(self.listeners):
            self.problems.append(("only some listening sockets are polled", [l.name for l in polled]))
        workers_polled = sorted(s.name for s in rlist if s.name.startswith("w"))
        held = sorted(s.name for srv in self.servers for s in srv.worker_sockets)
        if workers_polled != held:
            self.problems.append(("worker sockets held but not polled", held, workers_polled))
        # feed environment events until something is ready
        while True:
            r = self.ready_set(rlist)
            if r and (not self.events or self.events[0] == "loop"):
                break
            if not self.events:
                if r:
                    break
                if not self.shutdown_signalled:
                    self.apply_env("signal")     # nothing left to happen: stop the server
                elif self.running:
                    self.apply_env("finish")     # the environment lets a request in flight finish
                else:
                    return [], [], []            # nothing can become ready any more
                continue
            ev = self.events.pop(0)
            if ev == "loop":
                if r:
                    self.events.insert(0, "loop")
                    break
                continue                      # loop would block: skipped, like the model
            self.apply_env(ev)
        if self.events and self.events[0] == "loop":
            self.events.pop(0)
        self.trace.append("loop")
        self.observed.append({"polls_listener": polls_listener, "workers": len(held), "running": len(self.running),
                              "backlog": self.backlog, "at": len(self.trace)})
        return r, [], []


def run_scripted(ctx, events, maxc, nlisten=1):
    from radicale import config, server
    from common import quiet_radicale
    quiet_radicale()
    sc = Script(ctx, events, maxc, nlisten)
    counter = [0]

    class FakeServer:
        def __init__(self, configuration, family, address, handler):
            self.index = len(sc.servers)
            self.socket = sc.listeners[self.index]
            self.worker_sockets = set()
            self.server_address = ("127.0.0.1", 0)
            sc.servers.append(self)

        def set_app(self, app):
            pass

        def service_actions(self):
            pass

        def handle_request(self):
            # accept one connection and start a worker
            if sc.backlogs[self.index] <= 0:
                sc.problems.append(("accept with empty backlog",))
                return
            sc.backlogs[self.index] -= 1
            counter[0] += 1
            w = FakeSock("w%d" % counter[0])
            self.worker_sockets.add(w)
            sc.running.append(w)
            sc.accepted += 1

        def server_close(self):
            pass

    saved = (server.ParallelHTTPServer, server.select, server.Application)
    orig_recv = FakeSock.recv

    def recv(self, n):
        # `finally`: serve() waits for this worker; the environment must let it finish
        if not self.done:
            if self in sc.running:
                sc.running.remove(self)
            self.done = True
            sc.trace.append("finish")
        return b""
    FakeSock.recv = recv
    server.ParallelHTTPServer = FakeServer
    server.select = types.SimpleNamespace(select=sc.select)
    server.Application = lambda configuration: None
    try:
        conf = config.load()
        conf.update({"server": {"hosts": ", ".join("127.0.0.1:%d" % (5232 + i) for i in range(nlisten)),
                                "max_connections": str(maxc)}}, "verif", privileged=True)
        server.serve(conf, shutdown_socket=sc.shutdown)
        sc.returned = True
    finally:
        server.ParallelHTTPServer, server.select, server.Application = saved
        FakeSock.recv = orig_recv
    return sc


def scripted(ctx):
    rng = ctx.rng("script")
    n = ctx.n(1500, 60000)
    for i in range(n):
        maxc = rng.choice([0, 1, 1, 2, 3, 5])
        nlisten = rng.choice([1, 2, 2, 3])          # several `hosts` / a name resolving to IPv4 and IPv6
        m = rng.randint(1, 40)
        events = []
        for _ in range(m):
            r = rng.random()
            events.append(("arrive", rng.randrange(nlisten)) if r < 0.35 else "finish" if r < 0.6 else "loop" if r < 0.95 else "signal")
        sc = run_scripted(ctx, list(events), maxc, nlisten)
        case = {"max_connections": maxc, "listeners": nlisten, "events": events}
        peak = max([o["workers"] for o in sc.observed] + [0])
        ctx.case("scripted:max=%d:listeners=%d" % (maxc, nlisten), sample=dict(case, observed=sc.observed[:6]), key=case,
                 nontrivial=(maxc > 0 and peak >= maxc) or any("signal" == e for e in events))
        # oracle (model independent)
        for p in sc.problems:
            ctx.violation("serve(): %s" % (p,), case)
        if maxc > 0 and peak > maxc:
            ctx.violation("more than max_connections worker sockets held at once (%d > %d)" % (peak, maxc), case)
        for o in sc.observed:
            free = maxc <= 0 or o["workers"] < maxc
            if free != o["polls_listener"]:
                ctx.violation("listening socket %spolled while %d of %d slots are in use" % (
                    "" if o["polls_listener"] else "not ", o["workers"], maxc), case)
        if not sc.returned:
            ctx.violation("serve() did not return", case)
        if sc.running:
            ctx.violation("serve() returned while %d requests were still in flight" % len(sc.running), case)
        if ctx.driver:
            a = ctx.driver.ask1({"m": "server", "max": maxc, "events": sc.trace + ["loop", "loop"]})
            states = a["states"]
            # compare at every loop iteration the model took
            k = 0
            for idx, ev in enumerate(sc.trace):
                if ev != "loop":
                    continue
                # state *before* this loop event = states[idx-1]
                before = states[idx - 1] if idx > 0 else {"workers": 0, "running": 0, "backlog": 0, "polls_listener": True, "phase": "looping"}
                if before is None:
                    j = idx - 1
                    while j >= 0 and states[j] is None:
                        j -= 1
                    before = states[j] if j >= 0 else {"workers": 0, "running": 0, "backlog": 0, "polls_listener": True, "phase": "looping"}
                if k < len(sc.observed):
                    o = sc.observed[k]
                    k += 1
                    m_ = {"polls_listener": before["polls_listener"] if before["phase"] == "looping" else o["polls_listener"],
                          "workers": before["workers"], "running": before["running"], "backlog": before["backlog"]}
                    r_ = {x: o[x] for x in ("polls_listener", "workers", "running", "backlog")}
                    if before["phase"] == "looping" and m_ != r_:
                        ctx.disagree("serve() loop iteration vs model", dict(case, trace=sc.trace[:idx + 1]), r_, m_)
                        break
            final = [s for s in states if s is not None][-1] if any(states) else None
            if final and (final["phase"] != "returned" or final["accepted"] != sc.accepted):
                ctx.disagree("final state of serve() vs model", dict(case, trace=sc.trace), {"returned": sc.returned, "accepted": sc.accepted},
                             {"phase": final["phase"], "accepted": final["accepted"]})


def gate(ctx):
    from common import App
    rng = ctx.rng("gate")
    n = ctx.n(150, 3000)
    for i in range(n):
        internal = rng.random() < 0.7
        max_len = rng.choice([0, 1, 10, 100, 1000])
        length = rng.choice([0, 1, max_len, max_len + 1, max(0, max_len - 1), 5000])
        with App({"auth": {"type": "none"}, "server": {"max_content_length": str(max_len), "_internal_server": str(internal)}}) as app:
            body = "x" * length
            st, _, _ = app.request("PUT", "/u/c.ics", body, login="u:p")
        case = {"internal": internal, "max_content_length": max_len, "content_length": length}
        expect = internal and length != 0 and max_len > 0 and length > max_len
        ctx.case("gate", sample=dict(case, status=st), key=case, nontrivial=expect)
        if (st == 413) != expect:
            ctx.violation("Content-Length gate: status %d" % st, case, "413" if expect else "not 413", st)
        if ctx.driver:
            m = ctx.driver.ask1({"m": "server", "op": "gate", "internal": internal, "max_len": max_len, "len": length})["r"]
            if m != (st == 413):
                ctx.disagree("Content-Length gate vs model", case, st == 413, m)


def real_sockets(ctx):
    """n > max clients against a real server (one or two listening sockets) with a blocking handler"""
    import http.client
    from radicale import config, server
    from common import quiet_radicale
    quiet_radicale()
    rounds = ctx.n(3, 16)
    rng = ctx.rng("real")
    for rnd in range(rounds):
        maxc = rng.choice([1, 2, 3])
        nlisten = 1 if rnd % 3 == 2 else 2
        nclients = maxc + rng.randint(2, 4)
        state = {"inside": 0, "peak": 0, "served": 0}
        gate_sem = threading.Semaphore(0)
        lock = threading.Lock()
        orig_call = server.Application.__call__

        def blocking_call(self, environ, start_response):
            with lock:
                state["inside"] += 1
                state["peak"] = max(state["peak"], state["inside"])
            gate_sem.acquire(timeout=10)
            try:
                return orig_call(self, environ, start_response)
            finally:
                with lock:
                    state["inside"] -= 1
                    state["served"] += 1
        ports = []
        for _ in range(nlisten):
            s = socket.socket()
            s.bind(("127.0.0.1", 0))
            ports.append(s.getsockname()[1])
            s.close()
        conf = config.load()
        import tempfile
        import shutil
        folder = tempfile.mkdtemp(prefix="rverif-c20-")
        conf.update({"server": {"hosts": ", ".join("127.0.0.1:%d" % p for p in ports), "max_connections": str(maxc), "timeout": "5",
                                "max_content_length": "50"},
                     "storage": {"filesystem_folder": folder}, "auth": {"type": "none"}}, "verif", privileged=True)
        sd_in, sd_out = socket.socketpair()
        server.Application.__call__ = blocking_call
        th = threading.Thread(target=server.serve, args=(conf, sd_out), daemon=True)
        th.start()
        results = []

        def client(i):
            port = ports[i % len(ports)]
            for attempt in range(50):
                try:
                    c = http.client.HTTPConnection("127.0.0.1", port, timeout=20)
                    c.request("OPTIONS", "/")
                    r = c.getresponse()
                    body = r.read()
                    results.append((i, r.status, len(body) == int(r.getheader("Content-Length", "0"))))
                    c.close()
                    return
                except ConnectionRefusedError:
                    time.sleep(0.05)
                except Exception:   # queued (never accepted) clients are reset at shutdown
                    break
            results.append((i, None, False))
        try:
            cts = [threading.Thread(target=client, args=(i,), daemon=True) for i in range(nclients)]
            for c in cts:
                c.start()
            # wait until max handlers are inside, then a little longer to give extra clients a chance to sneak in
            t0 = time.time()
            while state["inside"] < maxc and time.time() - t0 < 10:
                time.sleep(0.01)
            time.sleep(0.3)
            # let exactly one request finish: the freed slot may be taken by one queued client only, even if
            # clients wait on several listening sockets
            gate_sem.release()
            t0 = time.time()
            while state["served"] < 1 and time.time() - t0 < 10:
                time.sleep(0.01)
            time.sleep(0.3)
            # shutdown while requests are in flight, then release them
            sd_in.close()
            time.sleep(0.1)
            for _ in range(nclients + 2):
                gate_sem.release()
            th.join(timeout=20)
            for c in cts:
                c.join(timeout=20)
        finally:
            server.Application.__call__ = orig_call
            for _ in range(nclients + 2):
                gate_sem.release()
            shutil.rmtree(folder, ignore_errors=True)
        case = {"max_connections": maxc, "listeners": nlisten, "clients": nclients, "peak_inside": state["peak"], "results": sorted(results)}
        ctx.case("real:max=%d:listeners=%d" % (maxc, nlisten), sample=case, key=[rnd, maxc, nclients], nontrivial=True)
        if state["peak"] > maxc:
            ctx.violation("%d requests were inside the handler at once with max_connections=%d" % (state["peak"], maxc), case)
        if th.is_alive():
            ctx.violation("serve() did not return after the shutdown signal", case)
        done = [r for r in results if r[1] == 200]
        if len(done) < min(maxc, nclients):
            ctx.violation("requests in flight at shutdown did not get a complete response", case)
        if any(r[1] == 200 and not r[2] for r in results):
            ctx.violation("a response was truncated", case)


def silent_clients(ctx):
    """clients that connect and then say nothing (plain TCP, and TLS: nothing at all, or the handshake and then nothing): another client
    is served meanwhile, the silent ones are dropped after the configured time-out, and serve() returns at shutdown"""
    import http.client
    import shutil
    import ssl
    import tempfile
    from radicale import config, server
    from common import quiet_radicale
    quiet_radicale()
    static = os.path.join(os.path.dirname(server.__file__), "tests", "static")
    rng = ctx.rng("silent")
    for rnd in range(ctx.n(4, 24)):
        tls = rnd % 2 == 1
        if tls and not os.path.exists(os.path.join(static, "cert.pem")):
            continue
        timeout = 1
        maxc = rng.choice([2, 3])
        nsilent = rng.randint(1, maxc - 1)
        silent_kind = rng.choice(["nothing", "handshake-then-nothing"]) if tls else "nothing"
        s0 = socket.socket()
        s0.bind(("127.0.0.1", 0))
        port = s0.getsockname()[1]
        s0.close()
        folder = tempfile.mkdtemp(prefix="rverif-c20s-")
        conf = config.load()
        srv = {"hosts": "127.0.0.1:%d" % port, "max_connections": str(maxc), "timeout": str(timeout)}
        if tls:
            srv.update({"ssl": "True", "certificate": os.path.join(static, "cert.pem"), "key": os.path.join(static, "key.pem")})
        conf.update({"server": srv, "storage": {"filesystem_folder": folder}, "auth": {"type": "none"}}, "verif", privileged=True)
        sd_in, sd_out = socket.socketpair()
        th = threading.Thread(target=server.serve, args=(conf, sd_out), daemon=True)
        th.start()
        cctx = None
        if tls:
            cctx = ssl.create_default_context()
            cctx.check_hostname = False
            cctx.verify_mode = ssl.CERT_NONE
        silents = []
        res = {"served_in": None, "status": None, "dropped_after": [], "returned": None}
        try:
            t_conn = None
            for _ in range(100):
                try:
                    c = socket.create_connection(("127.0.0.1", port), timeout=5)
                    silents.append(c)
                    break
                except ConnectionRefusedError:
                    time.sleep(0.05)
            for _ in range(nsilent - 1):
                silents.append(socket.create_connection(("127.0.0.1", port), timeout=5))
            t_conn = time.time()
            if tls and silent_kind == "handshake-then-nothing":
                silents = [cctx.wrap_socket(c, server_hostname="localhost") for c in silents]
            time.sleep(0.2)
            # a talking client must be served while the silent ones sit there

            def talk():
                t0 = time.time()
                try:
                    c = (http.client.HTTPSConnection("127.0.0.1", port, timeout=6, context=cctx) if tls
                         else http.client.HTTPConnection("127.0.0.1", port, timeout=6))
                    c.request("OPTIONS", "/")
                    r = c.getresponse()
                    r.read()
                    res["status"] = r.status
                    res["served_in"] = round(time.time() - t0, 2)
                    c.close()
                except Exception as e:
                    res["status"] = repr(e)[:80]
            tt = threading.Thread(target=talk, daemon=True)
            tt.start()
            tt.join(timeout=8)
            # the silent ones are dropped once the time-out has passed
            for c in silents:
                c.settimeout(max(0.1, t_conn + timeout + 3 - time.time()))
                try:
                    data = c.recv(1)
                    res["dropped_after"].append(round(time.time() - t_conn, 2) if data == b"" else "data")
                except (socket.timeout, ssl.SSLError, TimeoutError) as e:
                    res["dropped_after"].append(None if isinstance(e, (socket.timeout, TimeoutError)) else round(time.time() - t_conn, 2))
                except OSError:
                    res["dropped_after"].append(round(time.time() - t_conn, 2))
            sd_in.close()
            th.join(timeout=timeout + 6)
            res["returned"] = not th.is_alive()
        finally:
            for c in silents:
                try:
                    c.close()
                except OSError:
                    pass
            try:
                sd_in.close()
            except OSError:
                pass
            th.join(timeout=10)
            shutil.rmtree(folder, ignore_errors=True)
        case = dict(res, tls=tls, silent=silent_kind, silent_clients=nsilent, max_connections=maxc, timeout_s=timeout)
        ctx.case("silent:%s:%s" % ("tls" if tls else "plain", silent_kind), sample=case, key=["silent", rnd], nontrivial=True)
        if res["status"] != 200:
            ctx.violation("with %d silent client(s) and max_connections=%d another client was not served (%s)" % (nsilent, maxc, res["status"]), case)
        if any(d is None for d in res["dropped_after"]):
            ctx.violation("a silent client still holds its connection %d s after the %d s time-out" % (3, timeout), case)
        if res["returned"] is False:
            ctx.violation("serve() did not return after the shutdown signal while silent clients were connected", case)


def oversized_head_only(ctx):
    """a client declares a body above max_content_length and sends only the request head: the 413 is the answer to the head - it
    arrives long before the connection time-out and without the server waiting for (or taking in) the declared body"""
    import shutil
    import tempfile
    from radicale import config, server
    from common import quiet_radicale
    quiet_radicale()
    rng = ctx.rng("oversized")
    for rnd in range(ctx.n(3, 12)):
        limit = rng.choice([50, 1000, 100000])
        declared = limit + rng.choice([1, 1000, 50_000_000])
        sent = rng.choice([0, 0, 10])          # bytes of the body that follow the head at once
        method = rng.choice(["PUT", "PROPFIND", "REPORT", "MKCALENDAR", "PROPPATCH"])
        timeout = 6
        s0 = socket.socket()
        s0.bind(("127.0.0.1", 0))
        port = s0.getsockname()[1]
        s0.close()
        folder = tempfile.mkdtemp(prefix="rverif-c20o-")
        conf = config.load()
        conf.update({"server": {"hosts": "127.0.0.1:%d" % port, "max_connections": "2", "timeout": str(timeout), "max_content_length": str(limit)},
                     "storage": {"filesystem_folder": folder}, "auth": {"type": "none"}}, "verif", privileged=True)
        sd_in, sd_out = socket.socketpair()
        th = threading.Thread(target=server.serve, args=(conf, sd_out), daemon=True)
        th.start()
        res = {"status_line": None, "answered_in": None}
        c = None
        try:
            for _ in range(100):
                try:
                    c = socket.create_connection(("127.0.0.1", port), timeout=5)
                    break
                except ConnectionRefusedError:
                    time.sleep(0.05)
            t0 = time.time()
            c.sendall(("%s /u/x.ics HTTP/1.1\r\nHost: localhost\r\nContent-Type: text/calendar\r\nContent-Length: %d\r\n\r\n"
                       % (method, declared)).encode() + b"x" * sent)
            c.settimeout(timeout / 2)
            try:
                data = b""
                while b"\r\n" not in data:
                    chunk = c.recv(4096)
                    if not chunk:
                        break
                    data += chunk
                res["status_line"] = data.split(b"\r\n")[0].decode("ascii", "replace")
                res["answered_in"] = round(time.time() - t0, 2)
            except (socket.timeout, TimeoutError):
                res["status_line"] = "no answer within %.1f s (connection time-out %d s)" % (timeout / 2, timeout)
            except OSError as e:
                res["status_line"] = repr(e)[:80]
        finally:
            if c is not None:
                c.close()
            sd_in.close()
            th.join(timeout=timeout + 6)
            shutil.rmtree(folder, ignore_errors=True)
        case = dict(res, method=method, max_content_length=limit, declared=declared, body_bytes_sent=sent, timeout_s=timeout)
        ctx.case("oversized-head:%s" % method, sample=case, key=["oversized", rnd], nontrivial=True)
        if " 413 " not in (res["status_line"] or "") + " ":
            ctx.violation("a request declaring %d body bytes (limit %d) whose body is not sent was not answered 413 at once: %s"
                          % (declared, limit, res["status_line"]), case)


class CountingInput:
    """a request body stream with the read semantics of the socket file the built-in server hands to the application
    (`BufferedReader.read`: n = -1 or None reads to the end, n < -1 is a ValueError) that counts what is taken from it"""

    def __init__(self, data):
        import io
        self.raw = io.BytesIO(data)
        self.taken = 0

    def read(self, n=-1):
        if n is not None and n < -1:
            raise ValueError("read length must be non-negative or -1")
        b = self.raw.read(None if n in (None, -1) else n)
        self.taken += len(b)
        return b

    def readline(self, *a):
        b = self.raw.readline(*a)
        self.taken += len(b)
        return b


def content_length_header_level(ctx):
    """the raw text of the Content-Length header (negative, signed, padded, with underscores, not a number, empty, smaller or larger than
    what follows) x limits x body-reading methods, in process with the built-in server's switch on: however the header reads, the
    application takes in at most max_content_length bytes of the body; against RadicaleModel/ContentLength.lean"""
    import io
    import wsgiref.util
    from common import App
    rng = ctx.rng("clheader")
    event = ("BEGIN:VCALENDAR\r\nVERSION:2.0\r\nPRODID:x\r\nBEGIN:VEVENT\r\nUID:cl\r\nDTSTAMP:20240101T000000Z\r\nDTSTART:20240102T100000Z\r\n"
             "DESCRIPTION:%s\r\nEND:VEVENT\r\nEND:VCALENDAR\r\n")
    propfind = '<?xml version="1.0"?><D:propfind xmlns:D="DAV:"><D:prop><D:getetag/></D:prop></D:propfind><!-- %s -->'
    for i in range(ctx.n(160, 3000)):
        internal = rng.random() < 0.85
        limit = rng.choice([0, 200, 1000, 100000])
        pad = rng.choice([0, 50, 500, 5000, 250000])
        method = rng.choice(["PUT", "PUT", "PROPFIND", "REPORT", "MKCALENDAR", "PROPPATCH", "MKCOL"])
        body = ((event % ("x" * pad)) if method == "PUT" else (propfind % ("x" * pad))).encode()
        n = len(body)
        raw = rng.choice([str(n), str(n), str(n - 1), str(n + 1), "-1", "-1", "-2", "-%d" % n, "-0", "+%d" % n, " %d " % n, "%d_0" % (n // 10), "1__0", "_1",
                          "0x10", "", " ", "abc", "1e3", "12.0", "0", "00%d" % n, str(limit), str(limit + 1), "9" * 30, "-" + "9" * 30, "\t-1\n"])
        with App({"auth": {"type": "none"}, "rights": {"type": "authenticated"},
                  "server": {"max_content_length": str(limit), "_internal_server": str(internal)}}) as app:
            app.request("MKCALENDAR", "/u/c/", login="u:p")
            inp = CountingInput(body)
            environ = {"REQUEST_METHOD": method, "PATH_INFO": "/u/c/cl.ics" if method == "PUT" else ("/u/new%d/" % i if method.startswith("MK") else "/u/c/"),
                       "wsgi.input": inp, "wsgi.errors": io.StringIO(), "HTTP_AUTHORIZATION": "Basic dTpw", "HTTP_DEPTH": "0",
                       "CONTENT_TYPE": "text/calendar" if method == "PUT" else "text/xml"}
            if raw is not None:
                environ["CONTENT_LENGTH"] = raw
            wsgiref.util.setup_testing_defaults(environ)
            res = {}
            try:
                list(app.application(environ, lambda st_, hd_: res.update(status=int(st_.split()[0]))))
            except Exception as e:
                res["status"] = 599
                res["exc"] = repr(e)
            st = res.get("status")
        case = {"method": method, "internal_server": internal, "max_content_length": limit, "content_length_header": raw, "body_bytes_sent": n,
                "status": st, "body_bytes_taken_in": inp.taken}
        ctx.case("clheader:%s" % ("413" if st == 413 else "500" if st == 500 else "neg" if raw.strip().startswith("-") else "other"), sample=case,
                 key=["clheader", i], nontrivial=inp.taken > 0 or st in (413, 500))
        if internal and limit > 0 and inp.taken > limit:
            ctx.violation("with Content-Length %r the application took in %d body bytes, max_content_length is %d (status %s)"
                          % (raw, inp.taken, limit, st), case, "<= %d" % limit, inp.taken, finding=None)
        if ctx.driver:
            a = ctx.driver.ask1({"m": "server", "op": "cl", "fixed": True, "internal": internal, "max_len": limit, "raw": [ord(c) for c in raw], "avail": n})
            got = {"status": "413" if st == 413 else "500" if st == 500 else "other", "taken": inp.taken}
            mod = {"status": a["outcome"] if a["outcome"] in ("413", "500") else "other", "taken": a["taken"]}
            if got != mod:
                ctx.disagree("raw Content-Length header: status class and bytes taken in vs model ContentLength.handle", case, got, mod)


def run(ctx):
    ctx.extra["rule"] = ("(a) environment schedules of 1-40 events (arrive / finish / loop / signal) x max_connections in {0,1,2,3,5} driving the "
                         "real serve() loop through scripted select/server/socket stand-ins; (b) Content-Length gate; (c) real sockets with a "
                         "blocking handler.  non-trivial = the connection limit was reached or shutdown was signalled")
    ctx.trusted += ["scripted stand-ins for select.select / the server class / sockets (harness/props/c20.py)",
                    "socketserver.ThreadingMixIn, wsgiref, socket time-outs (observed only)"]
    ctx.assumptions += ["a worker closes its socket exactly when its request is finished"]
    scripted(ctx)
    gate(ctx)
    real_sockets(ctx)
    silent_clients(ctx)
    oversized_head_only(ctx)
    content_length_header_level(ctx)
