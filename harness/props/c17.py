"""C17 — the login cache never changes the outcome of a login.

Theorems: lean/Props/C17.lean.  Correspondence: the real `BaseAuth.login` (a subclass whose `_login` is a
scripted table, cache enabled, clock replaced by a shim in radicale.auth's namespace) against the model on
generated histories.  The oracle is independent of the model: every answer must be justified by a recorded
back-end answer inside the lifetime window, no exception may escape, and removing the attempts made under
other logins must not change the answers for a login.
"""
import json

PROP_FILES = ["Props/C17.lean"]
LEVEL = "proof"

NS = 10 ** 9
T0 = 1_700_000_000 * NS


def chars(s):
    return [ord(c) for c in s]


def unchars(a):
    return "".join(chr(x) for x in a)


class Clock:
    def __init__(self, t0=T0):
        self.now = t0
        self.slept = 0.0

    def time_ns(self):
        return self.now

    def time(self):
        return self.now / NS

    def sleep(self, s):
        self.slept += s


def make_auth(cfg, clock, table, calls):
    """table: dict login -> (password, user); mutated by the history."""
    import radicale.auth as rauth
    from radicale import config
    from common import quiet_radicale
    quiet_radicale()
    rauth.time = clock
    conf = config.load()
    conf.update({"auth": {"type": "htpasswd", "cache_logins": "True",
                          "cache_successful_logins_expiry": str(cfg["succ"]),
                          "cache_failed_logins_expiry": str(cfg["fail"]),
                          "lc_username": str(cfg["lc"]), "uc_username": str(cfg["uc"]),
                          "strip_domain": str(cfg["strip"])}}, "verif", privileged=True)

    class Scripted(rauth.BaseAuth):
        def _login(self, login, password):
            if table.get("\x00fault"):
                calls.append((clock.now, login, password, None))
                raise OSError("the back-end cannot be reached")
            ent = table.get(login)
            res = ent[1] if ent is not None and ent[0] == password else ""
            calls.append((clock.now, login, password, res))
            return res
    return Scripted(conf)


def run_impl(cfg, steps):
    """-> (outcomes, calls); outcome = user string or {'exception': repr}"""
    import radicale.auth as rauth
    import time as real_time
    clock = Clock(cfg.get("t0", T0))
    table = {}
    calls = []
    try:
        a = make_auth(cfg, clock, table, calls)
        outs = []
        for s in steps:
            clock.now += s["dt"]
            table.clear()
            for (l, p, u) in s["creds"]:
                table.setdefault(l, (p, u))
            if s.get("fault"):
                table["\x00fault"] = True
            ncalls = len(calls)
            try:
                user, info = a.login(s["l"], s["pw"])
                outs.append({"user": user, "cached": info.endswith("/ cached"), "consulted": len(calls) > ncalls})
            except OSError as e:
                if not s.get("fault"):
                    outs.append({"exception": repr(e)})
                    return outs, calls
                outs.append({"fault": True})                # the back-end's own error, passed on to the caller
            except Exception as e:
                outs.append({"exception": repr(e)})
                return outs, calls
        return outs, calls
    finally:
        rauth.time = real_time


def map_login(cfg, l):
    if cfg["lc"]:
        l = l.lower()
    if cfg["uc"]:
        l = l.upper()
    if cfg["strip"]:
        l = l.split("@")[0]
    return l


def age(now, t):
    return int((now - t) / 1000 / 1000 / 1000)


def oracle(ctx, cfg, steps, outs, calls, tag):
    """justification of every answer by a recorded back-end answer inside the window"""
    now = cfg.get("t0", T0)
    for i, s in enumerate(steps):
        now += s["dt"]
        if i >= len(outs):
            break
        o = outs[i]
        case = {"cfg": cfg, "steps": steps[:i + 1], "history": tag}
        if s.get("fault"):
            # the back-end failed (it neither accepted nor rejected): only an answer from the cache is a legitimate answer;
            # in particular the failure must not be remembered as a rejection (checked by the steps that follow)
            if "fault" in o:
                continue
            if not o.get("cached"):
                ctx.violation("the back-end raised an error and login() answered %r without a cached justification" % (o,), case)
                return False
        if "exception" in o:
            fid = "F11" if "KeyError" in o["exception"] else None
            ctx.violation("login raised %s" % o["exception"], case, "a (user, info) tuple", o["exception"], finding=fid)
            return False
        l = map_login(cfg, s["l"])
        lim = cfg["succ"] if o["user"] else cfg["fail"]
        ok = any(c[3] is not None and c[1] == l and c[2] == s["pw"] and c[3] == o["user"] and c[0] <= now and age(now, c[0]) <= lim
                 for c in calls)
        if not ok:
            ctx.violation("answer %r for (%r,%r) is not justified by any back-end answer within %d s" % (
                o["user"], l, s["pw"], lim), case, "a back-end answer for the same credentials in the window", o,
                finding="F26" if tag.startswith("F26") else None)
            return False
    return True


LOGINS = ["alice", "bob", "Bob", "bob@ex.org", "carol@ex.org", "ALICE", "d"]
PWS = ["p1", "p2", "p3", ""]
# logins and passwords whose concatenations coincide (the cache digests hash salt+login+password without delimiter)
SHIFT_LOGINS = ["anna", "annab", "ann", "an"]
SHIFT_PWS = ["belle42", "elle42", "abelle42", "nabelle42"]


# logins and passwords made of digits, for clock readings whose decimal text is a prefix of a later one
DIGIT_LOGINS = ["3", "33", "9", "93"]
DIGIT_PWS = ["3x", "x", "33x", "9x", "39x", ""]


def gen_history(rng, cfg):
    nlog = rng.randint(1, 5)
    shift = rng.random() < 0.3
    logins = rng.sample(SHIFT_LOGINS if shift else LOGINS, min(nlog, 4 if shift else 5))
    pws = SHIFT_PWS if shift else PWS
    if "t0" in cfg:
        logins = rng.sample(DIGIT_LOGINS, min(nlog, 4))
        pws = DIGIT_PWS
    table = {}
    for l in logins:
        if rng.random() < 0.8:
            ml = map_login(cfg, l)
            table[ml] = (rng.choice(pws[:3]), ml if rng.random() < 0.7 else ml + "-canon")
    steps = []
    n = rng.randint(1, 40)
    exps = [cfg["succ"], cfg["fail"]]
    for _ in range(n):
        r = rng.random()
        if r < 0.12 and table:          # credential change
            l = rng.choice(sorted(table))
            if rng.random() < 0.3:
                del table[l]
            else:
                table[l] = (rng.choice(pws[:3]), table[l][1])
        elif r < 0.2:
            l = map_login(cfg, rng.choice(logins))
            table[l] = (rng.choice(pws[:3]), l)
        k = rng.random()
        if k < 0.35:
            dt = 0
        elif k < 0.5:
            dt = rng.choice([1, 1000, NS // 2, NS - 1, NS])
        else:
            e = rng.choice(exps)
            dt = max(0, rng.choice([e * NS - 1, e * NS, e * NS + 1, (e + 1) * NS - 1, (e + 1) * NS, (e + 1) * NS + 1,
                                    2 * e * NS + 7, e * NS // 2]))
        if "t0" in cfg and rng.random() < 0.4:
            # the next clock reading is the current one with a digit appended (the clock is a few hundred seconds after the epoch)
            cur = cfg["t0"] + sum(x["dt"] for x in steps)
            if cur < 10 ** 13:
                dt = int(str(cur) + rng.choice("39")) - cur
        l = rng.choice(logins)
        ml = map_login(cfg, l)
        if ml in table and rng.random() < 0.55:
            pw = table[ml][0]
        else:
            pw = rng.choice(pws)
        steps.append({"dt": dt, "l": l, "pw": pw, "creds": [[k2, v[0], v[1]] for k2, v in sorted(table.items())]})
        if cfg.get("faults") and rng.random() < 0.12:
            steps[-1]["fault"] = True           # the back-end raises OSError at this attempt (file briefly missing, server down)
    return steps


def model_outs(ctx, cfg, steps, outs=None):
    req = {"m": "authcache", "succ": cfg["succ"], "fail": cfg["fail"], "lc": cfg["lc"], "uc": cfg["uc"],
           "strip": cfg["strip"], "t0": cfg.get("t0", T0), "fail_salt": cfg.get("t0", T0),
           "steps": [{"dt": s["dt"], "l": chars(s["l"]), "pw": chars(s["pw"]), "fault": bool(s.get("fault")),
                      "creds": [[chars(a), chars(b), chars(c)] for a, b, c in s["creds"]]} for s in steps]}
    r = ctx.driver.ask1(req)["r"]
    return [{"fault": True} if o.get("fault") else {"user": unchars(o["user"]), "cached": o["cached"], "consulted": o["consulted"]} for o in r]


CORPUS = [
    ("F26 digest input without separators: clock readings 99999999999 and 999999999993, a wrong password is served from the cache",
     {"succ": 100000, "fail": 5, "lc": False, "uc": False, "strip": False, "t0": 99_999_999_999},
     [{"dt": 0, "l": "33", "pw": "A", "creds": [["33", "A", "33"]]},
      {"dt": 999_999_999_993 - 99_999_999_999, "l": "33", "pw": "3x", "creds": [["33", "3x", "33"]]},
      {"dt": 1, "l": "33", "pw": "x", "creds": [["33", "3x", "33"]]}]),
    ("F10 expiry sweep clobbers the login being checked",
     {"succ": 15, "fail": 90, "lc": False, "uc": False, "strip": False},
     [{"dt": 0, "l": "bob", "pw": "bad", "creds": [["alice", "pa", "alice"], ["bob", "pb", "bob"]]},
      {"dt": 100 * NS, "l": "alice", "pw": "pa", "creds": [["alice", "pa", "alice"], ["bob", "pb", "bob"]]}]),
    ("F11 failed-cache lookup indexes with the sweep's loop variable",
     {"succ": 15, "fail": 90, "lc": False, "uc": False, "strip": False},
     [{"dt": 0, "l": "bob", "pw": "p1", "creds": [["bob", "pb", "bob"]]},
      {"dt": 50 * NS, "l": "bob", "pw": "p2", "creds": [["bob", "pb", "bob"]]},
      {"dt": 50 * NS, "l": "bob", "pw": "p2", "creds": [["bob", "pb", "bob"]]}]),
    ("F17 cached success answers with the login instead of the back-end's user name",
     {"succ": 15, "fail": 90, "lc": False, "uc": False, "strip": False},
     [{"dt": 0, "l": "jdoe", "pw": "p", "creds": [["jdoe", "p", "John Doe"]]},
      {"dt": NS, "l": "jdoe", "pw": "p", "creds": [["jdoe", "p", "John Doe"]]}]),
]


def check_history(ctx, cfg, steps, tag, stratum):
    outs, calls = run_impl(cfg, steps)
    ok = oracle(ctx, cfg, steps, outs, calls, tag)
    cached = sum(1 for o in outs if o.get("cached"))
    ctx.case(stratum, sample={"cfg": cfg, "steps": steps[:4], "answers": outs[:4]}, key=[cfg, steps],
             nontrivial=cached > 0)
    ctx.extra["cached_answers"] = ctx.extra.get("cached_answers", 0) + cached
    ctx.extra["attempts"] = ctx.extra.get("attempts", 0) + len(outs)
    if ctx.driver:
        m = model_outs(ctx, cfg, steps, outs)[:len(outs)]
        if m != outs:
            ctx.disagree("BaseAuth.login history vs model", {"cfg": cfg, "steps": steps, "history": tag}, outs, m)
    return ok, outs


def independence(ctx, cfg, steps, outs):
    logins = sorted({map_login(cfg, s["l"]) for s in steps})
    if len(logins) < 2:
        return
    for l in logins[:2]:
        # replace other logins' attempts by clock advances: merge their dt into the next kept step
        kept = []
        carry = 0
        idx = []
        for i, s in enumerate(steps):
            if map_login(cfg, s["l"]) == l:
                kept.append(dict(s, dt=s["dt"] + carry))
                carry = 0
                idx.append(i)
            else:
                carry += s["dt"]
        outs2, _ = run_impl(cfg, kept)
        a = [outs[i].get("user") for i in idx if i < len(outs)]
        b = [o.get("user", o.get("exception")) for o in outs2]
        if a != b:
            ctx.violation("answers for login %r change when attempts under other logins are removed" % l,
                          {"cfg": cfg, "steps": steps, "login": l}, b, a)
            return


def run(ctx):
    ctx.extra["rule"] = ("histories of 1-40 attempts over 1-5 logins (case variants, @domains) with right/wrong passwords, clock "
                         "advances straddling both expiry limits by +-1 ns, credential changes, back-ends that answer with a "
                         "canonical user name; lc/uc/strip_domain on or off; non-trivial = at least one answer served from a cache")
    ctx.trusted += ["scripted back-end and clock shim installed in radicale.auth (harness/props/c17.py)",
                    "SHA3-512 modelled as an injective function of the byte string it is fed (str(salt) ':' login ':' password); the failed-login "
                    "key string login + ':' + str(digest) is taken to determine (login, digest)"]
    ctx.assumptions += ["the clock does not go backwards and is constant during one login call",
                        "str.lower/str.upper restricted to ASCII logins in the generator"]
    for name, cfg, steps in CORPUS:
        check_history(ctx, cfg, steps, name, "corpus")
    rng = ctx.rng("hist")
    n = ctx.n(2500, 150000)
    for i in range(n):
        cfg = {"succ": rng.choice([0, 1, 5, 15]), "fail": rng.choice([0, 1, 5, 90]),
               "lc": False, "uc": False, "strip": rng.random() < 0.3}
        k = rng.random()
        if k < 0.2:
            cfg["lc"] = True
        elif k < 0.3:
            cfg["uc"] = True
        if rng.random() < 0.25:
            cfg["faults"] = True
        if rng.random() < 0.12:
            # a clock shortly after the epoch: readings with different numbers of decimal digits inside one cache lifetime
            cfg["t0"] = 10 ** rng.choice([9, 10, 11]) - rng.randint(1, 30)
            cfg["succ"] = rng.choice([100000, 15])
        steps = gen_history(rng, cfg)
        ok, outs = check_history(ctx, cfg, steps, "random-%d" % i,
                                 "epoch-clock" if "t0" in cfg else "lc" if cfg["lc"] else "uc" if cfg["uc"] else "strip" if cfg["strip"] else "plain")
        if ok and i % 5 == 0:
            independence(ctx, cfg, steps, outs)
