"""C16 — calendar queries return exactly the matching objects.

Theorems: lean/Props/C16.lean (each line of the RFC 4791 §9.9 tables, early exit, hull, shortcut).
Correspondence: objects from the property's grammar (DATE / UTC DATE-TIME start; DTEND, DURATION or neither;
FREQ=DAILY|WEEKLY with INTERVAL and COUNT|UNTIL|unbounded; EXDATE; DUE/COMPLETED/CREATED combinations) and
time ranges placed at, one second before and one second after every boundary: (a) `comp_match` on the parsed
item, (b) calendar-query REPORTs through the application, each also with an always-true condition before and
after the time-range (which switches the storage's pre-selection shortcut off), against the model; the oracle
is the RFC predicate evaluated on an independently computed occurrence set.  (c) free-busy REPORTs on calendars of
1-3 events (TRANSP / STATUS variants, occurrence limits 4, 7, 10000): the VFREEBUSY periods must be exactly the
overlapping occurrences of the opaque events (theorem `freebusy_exact`), or the report refused when one event reaches
the limit.
"""
import datetime as dtm
import xml.etree.ElementTree as ET

from common import App, parse_multistatus

PROP_FILES = ["Props/C16.lean"]
LEVEL = "proof"

E0 = 1709251200          # 2024-03-01T00:00:00Z
DAY = 86400
TMIN = -62135596800
TMAX = 253402300800


def fmt_dt(t):
    return dtm.datetime.fromtimestamp(t, dtm.timezone.utc).strftime("%Y%m%dT%H%M%SZ")


def fmt_date(t):
    return dtm.datetime.fromtimestamp(t, dtm.timezone.utc).strftime("%Y%m%d")


def fmt_dur(d):
    if d == 0:
        return "PT0S"
    days, rest = divmod(d, DAY)
    s = "P"
    if days:
        s += "%dD" % days
    if rest:
        s += "T"
        h, rest = divmod(rest, 3600)
        m, sec = divmod(rest, 60)
        if h:
            s += "%dH" % h
        if m:
            s += "%dM" % m
        if sec:
            s += "%dS" % sec
    return s


MODE = {"finite": False, "long": False}     # strata of gen_rule: no unbounded rules / a long finite series (> 1000 occurrences)


def gen_rule(rng, s, isdt):
    """-> (rrule text or None, occurrence starts (None = unbounded generator params), period)"""
    if rng.random() < 0.45 and not MODE["long"]:
        return None, [s], None, False
    freq = rng.choice(["DAILY", "WEEKLY"])
    interval = rng.choice([1, 1, 2, 3])
    period = (DAY if freq == "DAILY" else 7 * DAY) * interval
    txt = "FREQ=%s" % freq
    if interval != 1 or rng.random() < 0.3:
        txt += ";INTERVAL=%d" % interval
    k = rng.random()
    if MODE["finite"]:
        k *= 0.8
    if MODE["long"]:
        k = 0.0
    unbounded = False
    if k < 0.45:
        n = rng.randint(1, 5) if rng.random() < 0.97 and not MODE["long"] else rng.choice([1001, 1200, 1500])     # (now and then a long finite series)
        txt += ";COUNT=%d" % n
        occ = [s + i * period for i in range(n)]
    elif k < 0.8:
        n = rng.randint(1, 5)
        until = s + (n - 1) * period + rng.choice([0, 0, 3600 if isdt else 0, period - 1 if isdt else 0])
        txt += ";UNTIL=%s" % (fmt_dt(until) if isdt else fmt_date(until))
        occ = [s + i * period for i in range(n)]
    else:
        unbounded = True
        occ = [s + i * period for i in range(60)]
    return txt, occ, period, unbounded


def gen_object(rng, idx):
    kind = rng.choice(["VEVENT", "VEVENT", "VEVENT", "VTODO", "VTODO", "VJOURNAL"])
    uid = "o%d" % idx
    isdt = rng.random() < 0.6
    s = E0 + rng.randint(0, 10) * DAY + (rng.randint(0, 23) * 3600 + rng.choice([0, 0, 1800, 1]) if isdt else 0)
    o = {"kind": kind, "uid": uid, "datetime": isdt, "overrides": []}
    lines = ["UID:%s" % uid, "DTSTAMP:20240101T000000Z"]

    def start_line(name, t, as_dt):
        return "%s:%s" % (name, fmt_dt(t)) if as_dt else "%s;VALUE=DATE:%s" % (name, fmt_date(t))

    if kind in ("VEVENT", "VJOURNAL"):
        rule, occ, period, unbounded = gen_rule(rng, s, isdt)
        lines.append(start_line("DTSTART", s, isdt))
        if kind == "VEVENT":
            e = rng.random()
            if e < 0.4:
                # (DTEND equal to DTSTART: a zero-length event written with DTEND - RFC 4791 9.9 line 1 then asks start < DTEND and
                # end > DTSTART, so a range beginning exactly there does not contain it)
                dur = rng.choice([0, 1, 3600, DAY, DAY + 3600, 2 * DAY]) if isdt else rng.choice([DAY, 2 * DAY])
                lines.append(start_line("DTEND", s + dur, isdt))
                o.update(end="dtend", dur=dur)
            elif e < 0.75:
                dur = rng.choice([0, 3600, DAY, DAY + 3600, 2 * DAY, 7 * DAY]) if isdt else rng.choice([DAY, 2 * DAY, 0])
                lines.append("DURATION:" + fmt_dur(dur))
                o.update(end="duration", dur=dur)
            else:
                o.update(end="none", dur=0)
        ex = []
        occ_all0 = list(occ)
        if rule:
            lines.append("RRULE:" + rule)
            if len(occ) > 1 and rng.random() < 0.4:
                ex = rng.sample(occ[:6], rng.randint(1, min(2, len(occ[:6]) - 1)))
                for x in sorted(ex):
                    lines.append(start_line("EXDATE", x, isdt))
                occ = [t for t in occ if t not in ex]
        o.update(occ=occ, unbounded=unbounded, recurring=bool(rule), period=period, ex=ex, occ_all0=occ_all0)
    else:
        combo = rng.choice(["start+dur", "start+due", "start", "due", "completed+created", "completed", "created", "nothing"])
        o["combo"] = combo
        t = {"has_start": False, "duration": None, "due_delta": None, "has_due": False, "has_completed": False,
             "has_created": False, "compl_delta": 0}
        rule = None
        occ = [s]
        unbounded = False
        period = None
        if combo.startswith("start"):
            t["has_start"] = True
            lines.append(start_line("DTSTART", s, isdt))
            if combo == "start+dur":
                d = rng.choice([0, 3600, DAY, DAY + 3600]) if isdt else rng.choice([DAY, 2 * DAY])
                t["duration"] = d
                lines.append("DURATION:" + fmt_dur(d))
            elif combo == "start+due":
                d = rng.choice([0, 1, 3600, DAY, 3 * DAY]) if isdt else rng.choice([0, DAY, 2 * DAY])
                t["has_due"] = True
                t["due_delta"] = d
                lines.append(start_line("DUE", s + d, isdt))
            rule, occ, period, unbounded = gen_rule(rng, s, isdt)
            if rule:
                lines.append("RRULE:" + rule)
        elif combo == "due":
            t["has_due"] = True
            lines.append(start_line("DUE", s, isdt))
        elif combo == "completed+created":
            s = E0 + rng.randint(0, 10) * DAY + rng.randint(0, 86399)
            d = rng.choice([0, 1, 3600, 2 * DAY, 9 * DAY])
            t.update(has_completed=True, has_created=True, compl_delta=d)
            lines.append("COMPLETED:" + fmt_dt(s))
            lines.append("CREATED:" + fmt_dt(s - d))
            occ = [s]
        elif combo == "completed":
            s = E0 + rng.randint(0, 10) * DAY + rng.randint(0, 86399)
            t["has_completed"] = True
            lines.append("COMPLETED:" + fmt_dt(s))
            occ = [s]
        elif combo == "created":
            s = E0 + rng.randint(0, 10) * DAY + rng.randint(0, 86399)
            t["has_created"] = True
            lines.append("CREATED:" + fmt_dt(s))
            occ = [s]
        o.update(t, occ=occ, unbounded=unbounded, recurring=bool(rule), period=period if rule else None, ex=[], occ_all0=list(occ))
    lines.append("SUMMARY:x")
    o["text"] = ("BEGIN:VCALENDAR\r\nVERSION:2.0\r\nPRODID:-//verif//EN\r\nBEGIN:%s\r\n%s\r\nEND:%s\r\nEND:VCALENDAR\r\n"
                 % (kind, "\r\n".join(lines), kind))
    return o


# ---- independent oracle: RFC 4791 section 9.9 ----------------------------------------------------------

def occ_for(o, fe):
    """occurrence starts relevant for a filter ending at fe (unbounded rules are expanded as far as needed)"""
    if not o["unbounded"]:
        return o["occ"]
    s0, p = o["occ_all0"][0], o["period"]
    n = max(60, min(200000, (fe - s0) // p + 3)) if fe < TMAX else 60      # (a cap of 5000 made the free-busy oracle miss the occurrence limit on 57-year ranges)
    return [t for t in (s0 + i * p for i in range(n)) if t not in o["ex"]]


def rfc_match(o, fs, fe):
    k = o["kind"]
    for s in occ_for(o, fe):
        if k == "VEVENT":
            if o["end"] == "dtend":
                ok = fs < s + o["dur"] and fe > s
            elif o["end"] == "duration":
                ok = (fs < s + o["dur"] and fe > s) if o["dur"] > 0 else (fs <= s and fe > s)
            else:
                ok = (fs <= s and fe > s) if o["datetime"] else (fs < s + DAY and fe > s)
        elif k == "VJOURNAL":
            ok = (fs <= s and fe > s) if o["datetime"] else (fs < s + DAY and fe > s)
        else:
            c = o["combo"]
            if c == "start+dur":
                d = o["duration"]
                ok = fs <= s + d and (fe > s or fe >= s + d)
            elif c == "start+due":
                due = s + o["due_delta"]
                ok = (fs < due or fs <= s) and (fe > s or fe >= due)
            elif c == "start":
                ok = fs <= s and fe > s
            elif c == "due":
                ok = fs < s and fe >= s
            elif c == "completed+created":
                cr = s - o["compl_delta"]
                ok = (fs <= cr or fs <= s) and (fe >= cr or fe >= s)
            elif c == "completed":
                ok = fs <= s and fe >= s
            elif c == "created":
                ok = fe > s
            else:
                ok = True
        if ok:
            return True
    return False


def boundaries(o):
    pts = set()
    for s in o["occ"][:8] + (o["occ"][-2:] if len(o["occ"]) > 8 and not o["unbounded"] else []):
        ends = [s, s + 1, s + DAY]
        if o["kind"] == "VEVENT":
            ends.append(s + o.get("dur", 0))
        if o["kind"] == "VTODO":
            ends += [s + (o.get("duration") or 0), s + (o.get("due_delta") or 0), s - o.get("compl_delta", 0)]
        for e in ends:
            for d in (-1, 0, 1):
                pts.add(e + d)
    return sorted(pts)


def gen_ranges(rng, o, n):
    pts = boundaries(o)
    out = []
    for _ in range(n):
        a, b = rng.choice(pts), rng.choice(pts)
        if a > b:
            a, b = b, a
        if a == b:
            b = a + rng.choice([1, 2, 3600])
        k = rng.random()
        if k < 0.1:
            out.append((None, b))
        elif k < 0.2 and not o["unbounded"]:
            out.append((a, None))
        else:
            out.append((a, b))
    return out


NS = 'xmlns:D="DAV:" xmlns:C="urn:ietf:params:xml:ns:caldav"'


def filter_xml(kind, fs, fe, extra="none"):
    attrs = ""
    if fs is not None:
        attrs += ' start="%s"' % fmt_dt(fs)
    if fe is not None:
        attrs += ' end="%s"' % fmt_dt(fe)
    tr = "<C:time-range%s/>" % attrs
    true_cond = '<C:prop-filter name="UID"/>'
    if extra in ("sib-before", "sib-after"):
        # an always-true sibling: a second comp-filter for the same component type without conditions (RFC 4791 9.7.1: all must match)
        sib = '<C:comp-filter name="%s"/>' % kind
        main = '<C:comp-filter name="%s">%s</C:comp-filter>' % (kind, tr)
        return '<C:filter %s><C:comp-filter name="VCALENDAR">%s</C:comp-filter></C:filter>' % (NS, sib + main if extra == "sib-before" else main + sib)
    inner = tr if extra == "none" else (true_cond + tr if extra == "before" else tr + true_cond)
    return '<C:filter %s><C:comp-filter name="VCALENDAR"><C:comp-filter name="%s">%s</C:comp-filter></C:comp-filter></C:filter>' % (NS, kind, inner)


def model_req(o, fs, fe):
    r = {"m": "filter", "kind": o["kind"], "fs": TMIN if fs is None else fs, "fe": TMAX if fe is None else fe,
         "occ": occ_for(o, TMAX if fe is None else fe), "datetime": o["datetime"], "overrides": [],
         "unbounded": bool(o["unbounded"]), "tmax": TMAX, "tmin": TMIN}
    if o["kind"] == "VEVENT":
        r.update(end=o["end"], dur=o["dur"])
    if o["kind"] == "VTODO":
        for k in ("has_start", "duration", "due_delta", "has_due", "has_completed", "has_created", "compl_delta"):
            r[k] = o[k]
    return r


def function_level(ctx):
    import vobject
    import radicale.item as ritem
    from radicale.item import filter as rfilter
    rng = ctx.rng("fn")
    n = ctx.n(500, 30000)
    for i in range(n):
        MODE["long"] = i % 100 == 7
        try:
            o = gen_object(rng, i)
        finally:
            MODE["long"] = False
        try:
            v = vobject.readOne(o["text"])
            ritem.check_and_sanitize_items([v], tag="VCALENDAR")
            item = ritem.Item(collection_path="u/cal", vobject_item=v)
        except Exception as e:
            ctx.violation("generated object rejected: %r" % e, {"text": o["text"]})
            continue
        ranges = gen_ranges(rng, o, 6)
        reqs = [model_req(o, fs, fe) for fs, fe in ranges]
        ans = ctx.driver.ask(reqs) if ctx.driver else [None] * len(reqs)
        for (fs, fe), a in zip(ranges, ans):
            fsx, fex = (TMIN if fs is None else fs), (TMAX if fe is None else fe)
            exp = rfc_match(o, fsx, fex)
            case = {"object": o["text"], "range": [fs, fe]}
            stratum = o["kind"] + (":" + o.get("combo", o.get("end", "")) if o["kind"] != "VJOURNAL" else "") + (":rec" if o["recurring"] else "")
            ctx.case(stratum, sample={"kind": o["kind"], "lines": o["text"].split("\r\n")[4:-3], "range": [fs, fe], "match": exp},
                     key=[o["text"], fs, fe], nontrivial=exp)
            for extra in ("none", "before", "after", "sib-before", "sib-after"):
                fel = ET.fromstring(filter_xml(o["kind"], fs, fe, extra))
                try:
                    got = rfilter.comp_match(item, fel[0])
                except Exception as e:
                    ctx.violation("comp_match raised %r" % e, dict(case, conjunct=extra))
                    continue
                if got != exp:
                    fid = None
                    ctx.violation("time-range filter (%s always-true condition) says %s, RFC 4791 9.9 says %s" % (
                        {"none": "no", "before": "preceding", "after": "following", "sib-before": "preceding sibling", "sib-after": "following sibling"}[extra], got, exp), dict(case, conjunct=extra), exp, got, finding=fid)
                if a is not None and extra == "none" and a["match"] != got:
                    ctx.disagree("time_range_match vs model", case, got, a["match"])
            # hull in the cache: for an unbounded rule it starts at the first real occurrence and never ends
            if o["unbounded"]:
                try:
                    hull = list(item.time_range)
                except Exception as e:
                    hull = repr(e)
                exp_hull = [o["occ"][0], TMAX]
                if hull != exp_hull:
                    ctx.violation("the enclosing time range kept for the pre-selection shortcut is %s, the occurrences span %s" % (hull, exp_hull),
                                  case, exp_hull, hull)
            # hull in the cache vs model
            if a is not None and not a.get("open") and not o["unbounded"] and a["hull"] is not None:
                try:
                    hull = list(item.time_range)
                except Exception as e:
                    hull = repr(e)
                if hull != a["hull"]:
                    ctx.disagree("find_time_range vs model hull", case, hull, a["hull"])


def end_to_end(ctx):
    rng = ctx.rng("e2e")
    rounds = ctx.n(3, 60)
    for rnd in range(rounds):
        with App({"auth": {"type": "none"}}) as app:
            login = "u:p"
            assert app.request("MKCALENDAR", "/u/cal/", login=login)[0] == 201
            objs = []
            # every third collection holds finite objects only (so that open-ended ranges are asked end to end), among them
            # series of more than 1000 occurrences
            finite_round = rnd % 3 == 1
            for i in range(25):
                MODE["finite"], MODE["long"] = finite_round, finite_round and i < 3
                try:
                    o = gen_object(rng, rnd * 100 + i)
                finally:
                    MODE["finite"] = MODE["long"] = False
                st, _, _ = app.request("PUT", "/u/cal/%s.ics" % o["uid"], o["text"], login=login)
                if st != 201:
                    ctx.violation("generated object refused with %d" % st, {"text": o["text"]})
                    continue
                objs.append(o)
            # random boundary ranges, then ranges that touch an object's enclosing range (the one the storage layer's
            # pre-selection works from) exactly at its first and last second
            queries = []
            for q in range(ctx.n(12, 40)):
                o = rng.choice(objs)
                queries.append((o,) + gen_ranges(rng, o, 1)[0])
            for o in rng.sample(objs, min(len(objs), ctx.n(8, 20))) + [x for x in objs if len(x["occ"]) > 1000 and not x["unbounded"]] + \
                    [x for x in objs if x.get("end") == "dtend" and x.get("dur") == 0]:      # events that take no time: always at their edges
                e0 = o["occ"][0]
                pts = boundaries(o)
                edge = [(e0 - 7200, e0), (e0 - 1, e0), (e0 - 7200, e0 + 1), (None, e0), (e0, e0 + 1)]
                edge += [(p, p + 3600) for p in pts[-4:]] if not o["unbounded"] else []
                if not o["unbounded"] and len(o["occ"]) <= 1000:
                    # ranges that share an end point with the enclosing range at its far end, or begin at the last occurrence
                    el = o["occ"][-1]
                    edge += [(el, el + 2), (el, el + 3600), (el - 3600, el), (el - 1, el), (e0, el), (e0, el + 1)]
                if finite_round:
                    edge += [(p, None) for p in pts[-4:]] + [(pts[-1] + 7200, None), (e0 + 1, None)]
                for fs, fe in (rng.sample(edge, min(7, len(edge))) if len(o["occ"]) <= 1000 else edge[-6:]):
                    queries.append((o, fs, fe))
            for q, (o, fs, fe) in enumerate(queries):
                kind = o["kind"]
                cand = [x for x in objs if x["kind"] == kind and not (x["unbounded"] and fe is None)]
                fsx, fex = (TMIN if fs is None else fs), (TMAX if fe is None else fe)
                exp = sorted(x["uid"] for x in cand if rfc_match(x, fsx, fex))
                results = {}
                for extra in ("none", "before", "after", "sib-before", "sib-after"):
                    body = ('<?xml version="1.0"?><C:calendar-query %s><D:prop><D:getetag/></D:prop>%s</C:calendar-query>'
                            % (NS, filter_xml(kind, fs, fe, extra)))
                    if fe is None and any(x["unbounded"] for x in objs if x["kind"] == kind):
                        continue
                    st, _, text = app.request("REPORT", "/u/cal/", body, login=login)
                    if st != 207:
                        ctx.violation("calendar-query answered %d" % st, {"filter": body})
                        continue
                    ms, order, _ = parse_multistatus(text)
                    got = sorted(h.rsplit("/", 1)[1][:-4] for h in ms)
                    results[extra] = got
                    case = {"objects": {x["uid"]: x["text"] for x in cand if (x["uid"] in got) != (x["uid"] in exp)},
                            "kind": kind, "range": [fs, fe], "conjunct": extra}
                    ctx.case("report:%s:%s" % (kind, extra), sample={"kind": kind, "range": [fs, fe], "result": got}, key=[rnd, q, extra],
                             nontrivial=bool(got))
                    if got != exp:
                        ctx.violation("calendar-query (%s) returns %s, RFC 4791 9.9 gives %s" % (extra, got, exp), case, exp, got)
                if len({tuple(v) for v in results.values()}) > 1:
                    ctx.violation("adding an always-true condition changes the result of the query", {"kind": kind, "range": [fs, fe], "results": results})
                if ctx.driver and "none" in results:
                    ans = ctx.driver.ask([model_req(x, fs, fe) for x in cand])
                    mod = sorted(x["uid"] for x, a in zip(cand, ans) if (a["match"] if a.get("open") else a["shortcut_simple"]))
                    if mod != results["none"]:
                        ctx.disagree("calendar-query result vs model (shortcut path)", {"kind": kind, "range": [fs, fe]}, results["none"], mod)


F9_TEXT = ("BEGIN:VCALENDAR\r\nVERSION:2.0\r\nPRODID:-//verif//EN\r\n"
           "BEGIN:VEVENT\r\nUID:f9\r\nDTSTAMP:20240101T000000Z\r\nDTSTART:20240110T100000Z\r\nDTEND:20240110T110000Z\r\n"
           "RRULE:FREQ=DAILY;COUNT=3\r\nSUMMARY:m\r\nEND:VEVENT\r\n"
           "BEGIN:VEVENT\r\nUID:f9\r\nDTSTAMP:20240101T000000Z\r\nRECURRENCE-ID:20240111T100000Z\r\n"
           "DTSTART:20240105T120000Z\r\nDTEND:20240105T080000Z\r\nSUMMARY:o\r\nEND:VEVENT\r\nEND:VCALENDAR\r\n")


def ev_range(o, s):
    """the (start, end) the visitor passes on for the occurrence at s of a VEVENT (RFC lines 1-5)"""
    if o["end"] == "dtend":
        return (s, s + o["dur"])
    if o["end"] == "duration":
        return (s, s + o["dur"]) if o["dur"] > 0 else (s, s + 1)
    return (s, s + 1) if o["datetime"] else (s, s + DAY)


def parse_freebusy(text):
    out = []
    cur = None
    for line in text.replace("\r\n", "\n").split("\n"):
        if line == "BEGIN:VFREEBUSY":
            cur = {}
        elif line == "END:VFREEBUSY" and cur is not None:
            out.append((cur.get("DTSTART"), cur.get("DTEND"), cur.get("FBTYPE")))
            cur = None
        elif cur is not None and ":" in line:
            k, v = line.split(":", 1)
            k = k.split(";")[0]
            if k in ("DTSTART", "DTEND"):
                d = dtm.datetime.strptime(v, "%Y%m%dT%H%M%SZ").replace(tzinfo=dtm.timezone.utc)
                cur[k] = int(d.timestamp())
            elif k == "FBTYPE":
                cur[k] = v
    return sorted(out, key=lambda x: (x[0], x[1], x[2] or ""))


FBTYPE = {None: "BUSY", "CONFIRMED": "BUSY", "CANCELLED": "FREE", "TENTATIVE": "BUSY-TENTATIVE", "X-OTHER": "BUSY"}


def freebusy_level(ctx):
    """free-busy report = every overlapping occurrence of every opaque event, with its start and end"""
    rng = ctx.rng("freebusy")
    n = ctx.n(60, 2500)
    idx = 0
    for i in range(n):
        max_occ = rng.choice([10000, 10000, 4, 7])
        with App({"auth": {"type": "none"}, "reporting": {"max_freebusy_occurrence": str(max_occ)}}) as app:
            app.request("MKCALENDAR", "/u/fb/", login="u:pw")
            objs = []
            for _ in range(rng.randint(1, 3)):
                idx += 1
                o = gen_object(rng, idx)
                while o["kind"] != "VEVENT":
                    idx += 1
                    o = gen_object(rng, idx)
                transp = rng.choice([None, None, "OPAQUE", "TRANSPARENT"])
                status = rng.choice([None, None, "CONFIRMED", "CANCELLED", "TENTATIVE"])
                extra = ("TRANSP:%s\r\n" % transp if transp else "") + ("STATUS:%s\r\n" % status if status else "")
                o["text"] = o["text"].replace("SUMMARY:x\r\n", extra + "SUMMARY:x\r\n")
                o["opaque"] = transp != "TRANSPARENT"
                o["status"] = status
                st, _, _ = app.request("PUT", "/u/fb/%s.ics" % o["uid"], o["text"], login="u:pw", CONTENT_TYPE="text/calendar")
                if st == 201:
                    objs.append(o)
            if not objs:
                continue
            for fs, fe in gen_ranges(rng, rng.choice(objs), 4):
                if fs is None or fe is None:
                    continue
                body = ('<?xml version="1.0"?><C:free-busy-query xmlns:C="urn:ietf:params:xml:ns:caldav"><C:time-range start="%s" end="%s"/>'
                        '</C:free-busy-query>' % (fmt_dt(fs), fmt_dt(fe)))
                st, _, text = app.request("REPORT", "/u/fb/", body, login="u:pw")
                # oracle, per event
                expect = []
                refused = False
                for o in objs:
                    if not o["opaque"]:
                        continue
                    hits = [ev_range(o, s) for s in occ_for(o, fe)]
                    hits = [(a, b) for a, b in hits if fs < b and a < fe]
                    if len(hits) >= max_occ:
                        refused = True
                    expect += [(a, b, FBTYPE[o["status"]]) for a, b in hits]
                expect.sort(key=lambda x: (x[0], x[1], x[2] or ""))
                case = {"objects": [o["text"] for o in objs], "range": [fs, fe], "max_freebusy_occurrence": max_occ, "status": st}
                ctx.case("freebusy:%s" % ("refused" if refused else "listed"), sample=dict(case, periods=len(expect)), key=[i, fs, fe],
                         nontrivial=bool(expect))
                if refused:
                    if st == 200:
                        ctx.violation("free-busy report answered although an event has %d or more occurrences in the range" % max_occ, case)
                    got = None
                else:
                    if st != 200:
                        ctx.violation("free-busy report refused with %d" % st, case)
                        continue
                    got = parse_freebusy(text)
                    if got != expect:
                        ctx.violation("free-busy report lists %s, the overlapping occurrences of opaque events are %s" % (got[:6], expect[:6]), case)
                # the model, per event
                if ctx.driver:
                    reqs = []
                    for o in objs:
                        r = model_req(o, fs, fe)
                        r.update(op="freebusy", opaque=o["opaque"], max=max_occ)
                        reqs.append(r)
                    ans = ctx.driver.ask(reqs)
                    m_ref = any(a["fb"] is None for a in ans)
                    m_list = None if m_ref else sorted([(p[0], p[1], FBTYPE[o["status"]]) for o, a in zip(objs, ans) for p in a["fb"]],
                                                       key=lambda x: (x[0], x[1], x[2] or ""))
                    if (m_ref, m_list) != (st != 200, got):
                        ctx.disagree("free-busy report vs model", case, {"refused": st != 200, "periods": got and got[:6]},
                                     {"refused": m_ref, "periods": m_list and m_list[:6]})


def known_witnesses(ctx):
    """F9: an override whose DTEND lies before its DTSTART (outside the property's grammar, accepted by the server)"""
    with App({"auth": {"type": "none"}}) as app:
        login = "u:p"
        app.request("MKCALENDAR", "/u/cal/", login=login)
        st, _, _ = app.request("PUT", "/u/cal/f9.ics", F9_TEXT, login=login)
        if st != 201:
            return
        fs = int(dtm.datetime(2024, 1, 5, 9, tzinfo=dtm.timezone.utc).timestamp())
        fe = int(dtm.datetime(2024, 1, 6, 0, tzinfo=dtm.timezone.utc).timestamp())
        res = {}
        for extra in ("none", "after"):
            body = ('<?xml version="1.0"?><C:calendar-query %s><D:prop><D:getetag/></D:prop>%s</C:calendar-query>'
                    % (NS, filter_xml("VEVENT", fs, fe, extra)))
            st, _, text = app.request("REPORT", "/u/cal/", body, login=login)
            res[extra] = sorted(parse_multistatus(text)[0]) if st == 207 else st
        ctx.case("witness:F9", sample={"results": res}, key="F9", nontrivial=True)
        if res["none"] != res["after"]:
            ctx.violation("an always-true condition changes the result for an override with DTEND before DTSTART "
                          "(pre-selection shortcut vs full evaluation): %s" % res, {"object": F9_TEXT, "range": [fs, fe]},
                          finding="F9")


F27_TEXT = ("BEGIN:VCALENDAR\r\nVERSION:2.0\r\nPRODID:-//verif//EN\r\nBEGIN:VTODO\r\nUID:f27\r\nDTSTAMP:20240101T000000Z\r\n"
            "DTSTART:20240302T030001Z\r\nDURATION:PT0S\r\nRRULE:FREQ=WEEKLY;INTERVAL=2\r\nSUMMARY:x\r\nEND:VTODO\r\nEND:VCALENDAR\r\n")


def f27_witness(ctx):
    """F27 (fixed): a recurring zero-length to-do whose first occurrence is the last instant of the requested range"""
    import vobject
    import radicale.item as ritem
    from radicale.item import filter as rfilter
    fe = int(dtm.datetime(2024, 3, 2, 3, 0, 1, tzinfo=dtm.timezone.utc).timestamp())
    fs = fe - 7200
    with App({"auth": {"type": "none"}}) as app:
        app.request("MKCALENDAR", "/u/cal/", login="u:p")
        if app.request("PUT", "/u/cal/f27.ics", F27_TEXT, login="u:p")[0] != 201:
            return
        body = ('<?xml version="1.0"?><C:calendar-query %s><D:prop><D:getetag/></D:prop>%s</C:calendar-query>' % (NS, filter_xml("VTODO", fs, fe)))
        st, _, text = app.request("REPORT", "/u/cal/", body, login="u:p")
        got = sorted(parse_multistatus(text)[0]) if st == 207 else st
    item = ritem.Item(collection_path="u/cal", vobject_item=vobject.readOne(F27_TEXT))
    full = rfilter.comp_match(item, ET.fromstring(filter_xml("VTODO", fs, fe))[0])
    ctx.case("witness:F27", sample={"report": got, "full evaluation": full}, key="F27", nontrivial=True)
    if full and got != ["/u/cal/f27.ics"]:
        ctx.violation("calendar-query drops a recurring zero-duration to-do whose first occurrence is the last instant of the range although the "
                      "filter matches it (RFC 4791 9.9: end >= DTSTART+DURATION): the storage pre-selection skipped it", {"object": F27_TEXT, "range": [fs, fe]},
                      ["/u/cal/f27.ics"], got, finding="F27")


F37_TEXT = ("BEGIN:VCALENDAR\r\nVERSION:2.0\r\nPRODID:-//verif//EN\r\nBEGIN:VEVENT\r\nUID:f37\r\nDTSTAMP:20240101T000000Z\r\n"
            "DTSTART:20240307T220001Z\r\nDTEND:20240307T220001Z\r\nRRULE:FREQ=WEEKLY;COUNT=3\r\nSUMMARY:x\r\nEND:VEVENT\r\nEND:VCALENDAR\r\n")


def f37_witness(ctx):
    """F37 (fixed): a series of events written with DTEND = DTSTART and a requested range that begins exactly at its first occurrence
    (or ends exactly at its last): RFC 4791 9.9 (`start < DTEND and end > DTSTART`) does not match, the pre-selection said it does"""
    s0 = int(dtm.datetime(2024, 3, 7, 22, 0, 1, tzinfo=dtm.timezone.utc).timestamp())
    with App({"auth": {"type": "none"}}) as app:
        app.request("MKCALENDAR", "/u/cal/", login="u:p")
        if app.request("PUT", "/u/cal/f37.ics", F37_TEXT, login="u:p")[0] != 201:
            return
        for fs, fe in ((s0, s0 + 1), (s0 + 10 * DAY, s0 + 14 * DAY), (s0, s0 + 14 * DAY)):
            res = {}
            for extra in ("none", "after"):
                body = ('<?xml version="1.0"?><C:calendar-query %s><D:prop><D:getetag/></D:prop>%s</C:calendar-query>' % (NS, filter_xml("VEVENT", fs, fe, extra)))
                st, _, text = app.request("REPORT", "/u/cal/", body, login="u:p")
                res[extra] = sorted(parse_multistatus(text)[0]) if st == 207 else st
            # occurrences at s0, s0 + 7 d, s0 + 14 d, each taking no time
            exp = ["/u/cal/f37.ics"] if any(fs < t and fe > t for t in (s0, s0 + 7 * DAY, s0 + 14 * DAY)) else []
            ctx.case("witness:F37", sample={"range": [fs, fe], "results": res, "expected": exp}, key=["F37", fs, fe], nontrivial=True)
            if res["none"] != exp or res["after"] != exp:
                ctx.violation("a series of events with DTEND = DTSTART and a range sharing an end point with its enclosing range: the plain query returns %s, "
                              "with an always-true condition %s, RFC 4791 9.9 gives %s" % (res["none"], res["after"], exp),
                              {"object": F37_TEXT, "range": [fs, fe]}, exp, res, finding="F37")


F38_TEXT = ("BEGIN:VCALENDAR\r\nVERSION:2.0\r\nPRODID:-//verif//EN\r\nBEGIN:VJOURNAL\r\nUID:f38\r\nDTSTAMP:20240101T000000Z\r\n"
            "SUMMARY:x\r\nEND:VJOURNAL\r\nEND:VCALENDAR\r\n")


def f38_witness(ctx):
    """F38 (fixed): a VJOURNAL without DTSTART matches no time range (RFC 4791 9.9); requests open at one end returned it, the same
    request with an always-true condition did not.  A to-do without dates matches every range, both ways."""
    todo = F38_TEXT.replace("VJOURNAL", "VTODO").replace("f38", "f38t")
    with App({"auth": {"type": "none"}}) as app:
        app.request("MKCALENDAR", "/u/cal/", login="u:p")
        if app.request("PUT", "/u/cal/f38.ics", F38_TEXT, login="u:p")[0] != 201 or app.request("PUT", "/u/cal/f38t.ics", todo, login="u:p")[0] != 201:
            return
        t0 = int(dtm.datetime(2024, 1, 1, tzinfo=dtm.timezone.utc).timestamp())
        for kind, exp in (("VJOURNAL", []), ("VTODO", ["/u/cal/f38t.ics"])):
            for fs, fe in ((t0, None), (None, t0), (t0, t0 + 366 * DAY)):
                res = {}
                for extra in ("none", "after"):
                    body = ('<?xml version="1.0"?><C:calendar-query %s><D:prop><D:getetag/></D:prop>%s</C:calendar-query>' % (NS, filter_xml(kind, fs, fe, extra)))
                    st, _, text = app.request("REPORT", "/u/cal/", body, login="u:p")
                    res[extra] = sorted(parse_multistatus(text)[0]) if st == 207 else st
                ctx.case("witness:F38:%s" % kind, sample={"range": [fs, fe], "results": res, "expected": exp}, key=["F38", kind, fs, fe], nontrivial=True)
                if res["none"] != exp or res["after"] != exp:
                    ctx.violation("an undated %s and the range %s: the plain query returns %s, with an always-true condition %s, RFC 4791 9.9 gives %s"
                                  % (kind, [fs, fe], res["none"], res["after"], exp), {"object": F38_TEXT if kind == "VJOURNAL" else todo, "range": [fs, fe]},
                                  exp, res, finding="F38")


def filter_structure_level(ctx):
    """random filter trees (several filter elements, sibling comp-filters, prop-filters that hold or not, is-not-defined, unknown
    elements, up to three levels, 0-2 time-ranges anywhere) against the model of `simplify_prefilters` and `comp_match`
    (lean/RadicaleModel/Prefilter.lean); and, independent of the model, whenever the real function says "simple" the real
    full evaluation equals the simplified condition"""
    import vobject
    import radicale.item as ritem
    from radicale.item import filter as rfilter
    from radicale import xmlutils
    rng = ctx.rng("structure")
    C = "urn:ietf:params:xml:ns:caldav"

    def gen(level):
        k = rng.random()
        if level >= 3 or k < 0.3:
            a = rng.choice([1704153600, 1704189600, 1704193200, 1704196800, 1704240000])
            b = a + rng.choice([1, 1800, 3600, 86400])
            return {"k": "tr", "fs": a, "fe": b}
        if k < 0.45:
            return {"k": "prop", "holds": rng.random() < 0.6}
        if k < 0.5:
            return {"k": "ind"}
        if k < 0.55:
            return {"k": "other"}
        name = rng.choice(["VCALENDAR", "VEVENT", "VEVENT", "VTODO", "VJOURNAL", "VALARM", "vevent"] if level else ["VCALENDAR", "VCALENDAR", "VCALENDAR", "VEVENT"])
        return {"k": "comp", "name": name, "ch": [gen(level + 1) for _ in range(rng.choice([0, 1, 1, 1, 2, 3]))]}

    def to_xml(f, level=0):
        if f["k"] == "tr":
            return '<C:time-range start="%s" end="%s"/>' % (fmt_dt(f["fs"]), fmt_dt(f["fe"]))
        if f["k"] == "prop":
            # a property that exists at that level (VERSION of the VCALENDAR, UID of the component) or one that does not
            return '<C:prop-filter name="%s"/>' % (("VERSION" if level <= 1 else "UID") if f["holds"] else "X-NOT-THERE")
        if f["k"] == "ind":
            return "<C:is-not-defined/>"
        if f["k"] == "other":
            return "<C:frobnicate/>"
        return '<C:comp-filter name="%s">%s</C:comp-filter>' % (f["name"], "".join(to_xml(c, level + 1) for c in f["ch"]))

    def upper(f):
        return dict(f, name=f["name"].upper(), ch=[upper(c) for c in f["ch"]]) if f["k"] == "comp" else f
    for i in range(ctx.n(300, 20000)):
        o = gen_object(rng, 900000 + i)
        try:
            v = vobject.readOne(o["text"])
            ritem.check_and_sanitize_items([v], tag="VCALENDAR")
            item = ritem.Item(collection_path="u/cal", vobject_item=v)
        except Exception:
            continue
        nfil = rng.choice([1, 1, 1, 2])
        filters, trees = [], []
        for _ in range(nfil):
            tops = [gen(0) for _ in range(rng.choice([0, 1, 1, 1, 2]))]
            for t in tops:
                if t["k"] == "comp" and rng.random() < 0.7:
                    t["name"] = "VCALENDAR"
                    if t["ch"] and t["ch"][0]["k"] == "comp" and rng.random() < 0.6:
                        t["ch"][0]["name"] = o["kind"]
            trees += tops
            filters.append(ET.fromstring('<C:filter xmlns:C="%s" xmlns:D="DAV:">%s</C:filter>' % (C, "".join(to_xml(t) for t in tops))))
        # the real functions
        rtag, rs, re_, rsimple = rfilter.simplify_prefilters(filters, "VCALENDAR")
        real_matches = []
        for fel in filters:
            for top in fel:
                try:
                    real_matches.append(bool(rfilter.comp_match(item, top)) if top.tag == xmlutils.make_clark("C:comp-filter") else "raises")
                except ValueError:
                    real_matches.append("raises")
                except Exception as e:
                    real_matches.append("error:%s" % type(e).__name__)
        # time_range_match of the item for each range that occurs (the model takes it as given)
        table = []

        def walk(f):
            if f["k"] == "tr":
                tel = ET.fromstring('<C:time-range xmlns:C="%s" start="%s" end="%s"/>' % (C, fmt_dt(f["fs"]), fmt_dt(f["fe"])))
                table.append([f["fs"], f["fe"], bool(rfilter.time_range_match(item.vobject_item, tel, item.component_name))])
            for c in f.get("ch", []):
                walk(c)
        for t in trees:
            walk(t)
        case = {"filter": [to_xml(t) for t in trees], "filters": nfil, "object_kind": o["kind"]}
        ctx.case("structure:%s" % ("simple" if rsimple else "not-simple"), sample=dict(case, simplified=[rtag, rs, re_, rsimple]), key=["fs", i], nontrivial=rsimple)
        # model-independent: "simple" must mean that the simplified condition equals the full evaluation
        if rsimple and "raises" not in real_matches and not any(str(m).startswith("error") for m in real_matches):
            full = all(real_matches)
            tel = ET.fromstring('<C:time-range xmlns:C="%s" start="%s" end="%s"/>' % (C, fmt_dt(rs), fmt_dt(re_))) if (rs, re_) != (TMIN, TMAX) else None
            simp = (rtag is None or rtag == item.component_name) and (tel is None or bool(rfilter.time_range_match(item.vobject_item, tel, item.component_name)))
            if full != simp:
                ctx.violation("simplify_prefilters calls this filter simple, but the filter says %s and the simplified condition (%s, %s..%s) says %s"
                              % (full, rtag, rs, re_, simp), dict(case, object=o["text"]), full, simp)
        if ctx.driver:
            a = ctx.driver.ask1({"m": "prefilter", "flat": [upper(t) for t in trees], "coll_tag": "VCALENDAR", "tmin": TMIN, "tmax": TMAX,
                                 "item": {"name": "VCALENDAR", "component": item.component_name or "", "tr": table}})
            model = [a["tag"], a["fs"], a["fe"], a["simple"]]
            if model != [rtag, rs, re_, rsimple]:
                ctx.disagree("simplify_prefilters vs model", case, [rtag, rs, re_, rsimple], model)
            if nfil == 1 or all(len(list(f)) for f in filters):
                if a["matches"] != real_matches and not any(str(m).startswith("error") for m in real_matches):
                    ctx.disagree("comp_match of each filter element vs model", case, real_matches, a["matches"])


def run(ctx):
    known_witnesses(ctx)
    f27_witness(ctx)
    f37_witness(ctx)
    f38_witness(ctx)
    filter_structure_level(ctx)
    ctx.extra["rule"] = ("VEVENT/VTODO/VJOURNAL from the grammar (DATE or UTC start; DTEND/DURATION/neither; DAILY|WEEKLY x INTERVAL x "
                         "COUNT|UNTIL|unbounded; EXDATE; the eight VTODO combinations) x ranges whose ends sit at, 1 s before and 1 s after "
                         "every boundary, open-ended ones included; each filter also with an always-true condition before / after the "
                         "time-range; non-trivial = the object matches")
    ctx.trusted += ["vobject/dateutil expand DAILY/WEEKLY rules as arithmetic progressions (validated by the oracle, not proved)",
                    "integer seconds, UTC or DATE values"]
    function_level(ctx)
    end_to_end(ctx)
    freebusy_level(ctx)
