"""C08 — ETags identify content and conditional requests prevent lost updates.

Theorems: lean/Props/C08.lean (If-Match / If-None-Match logic of PUT and DELETE, lost update excluded,
collection ETag sensitive to members and properties).
Correspondence: histories rich in conditional requests (current, stale, foreign, malformed, `*`) against the
model; ETags harvested through the PUT response, GET/HEAD, PROPFIND and REPORT must be one value per
content, differ whenever content differs (checked as a bijection with the model's content ids) and 412 must
leave the store unchanged.
"""
import os
import davsim

PROP_FILES = ["Props/C08.lean"]
LEVEL = "proof"


def four_ways(ctx, sim, coll, href, put_etag, case):
    """the ETag of one item through GET, HEAD, PROPFIND and REPORT"""
    path = "/" + "/".join(coll) + "/" + href
    seen = {"put": put_etag}
    st, hd, _ = sim.app.request("GET", path, login="u:pw")
    seen["get"] = hd.get("ETag") if st == 200 else None
    st, hd, _ = sim.app.request("HEAD", path, login="u:pw")
    seen["head"] = hd.get("ETag") if st == 200 else None
    # the same with content negotiation and conditional-read headers a client or proxy may add: the validator stays the same
    for label, extra in (("get+gzip", {"HTTP_ACCEPT_ENCODING": "gzip"}), ("head+gzip", {"HTTP_ACCEPT_ENCODING": "gzip, deflate"}),
                         ("get+accept", {"HTTP_ACCEPT": "text/calendar, */*;q=0.1", "HTTP_ACCEPT_CHARSET": "utf-8"})):
        try:
            st, hd, _ = sim.app.request(label.split("+")[0].upper(), path, login="u:pw", **extra)
        except UnicodeDecodeError:
            st, hd = 200, {}
        if st == 200 and hd.get("ETag") is not None:
            seen[label] = hd.get("ETag")
    st, _, text = sim.app.request("PROPFIND", path, davsim.PROPFIND_BODY, login="u:pw", HTTP_DEPTH="0")
    if st == 207:
        ms, order, _ = davsim.parse_multistatus(text)
        pr = ms[order[0]]
        seen["propfind"] = pr["D:getetag"][1].text if isinstance(pr, dict) and "D:getetag" in pr else None
    book = href.endswith(".vcf")
    body = ('<?xml version="1.0"?><C:calendar-multiget xmlns:D="DAV:" xmlns:C="urn:ietf:params:xml:ns:caldav"><D:prop><D:getetag/></D:prop>'
            '<D:href>%s</D:href></C:calendar-multiget>' % path)
    if book:
        body = body.replace("C:calendar-multiget", "CR:addressbook-multiget").replace('xmlns:C="urn:ietf:params:xml:ns:caldav"', 'xmlns:CR="urn:ietf:params:xml:ns:carddav"')
    st, _, text = sim.app.request("REPORT", "/" + "/".join(coll) + "/", body, login="u:pw")
    if st == 207:
        ms, order, _ = davsim.parse_multistatus(text)
        pr = ms.get(path)
        seen["report"] = pr["D:getetag"][1].text if isinstance(pr, dict) and "D:getetag" in pr else None
    vals = {v for v in seen.values()}
    if len(vals) != 1 or None in vals:
        ctx.violation("the ETag of one item differs between PUT response, GET/HEAD, PROPFIND and REPORT", dict(case, etags=seen))


def cache_free_etag(app, path):
    """the ETag a server without any item cache gives for `path`: a scratch application on a copy of the collection tree
    (reference for the precondition oracle - the application under test reads ETags out of its cache)"""
    import shutil
    import tempfile
    from common import App
    tmp = tempfile.mkdtemp(prefix="rverif-c08ref-")
    try:
        shutil.copytree(os.path.join(app.folder, "collection-root"), os.path.join(tmp, "collection-root"),
                        ignore=shutil.ignore_patterns(".Radicale.cache", ".Radicale.lock"))
        with App({"auth": {"type": "none"}}, folder=tmp) as ref:
            st, hd, _ = ref.request("HEAD", path, login="u:pw")
        return hd.get("ETag") if st == 200 else None
    finally:
        shutil.rmtree(tmp, ignore_errors=True)


def member_etags(app, coll):
    from common import parse_multistatus
    st, _, text = app.request("PROPFIND", coll, '<?xml version="1.0"?><D:propfind xmlns:D="DAV:"><D:prop><D:getetag/></D:prop></D:propfind>',
                              login="u:pw", HTTP_DEPTH="1")
    if st != 207:
        return None
    ms, order, _ = parse_multistatus(text)
    return {h: (p["D:getetag"][1].text if isinstance(p, dict) and "D:getetag" in p else None) for h, p in ms.items() if h.rstrip("/") != coll.rstrip("/")}


def cache_free_member_etags(app, coll):
    import shutil
    import tempfile
    from common import App
    tmp = tempfile.mkdtemp(prefix="rverif-c08ref-")
    try:
        shutil.copytree(os.path.join(app.folder, "collection-root"), os.path.join(tmp, "collection-root"),
                        ignore=shutil.ignore_patterns(".Radicale.cache", ".Radicale.lock"))
        with App({"auth": {"type": "none"}}, folder=tmp) as ref:
            return member_etags(ref, coll)
    finally:
        shutil.rmtree(tmp, ignore_errors=True)


STORAGE_VARIANTS = [None, None, {"storage": {"use_cache_subfolder_for_item": "True"}}, {"storage": {"use_mtime_and_size_for_item_cache": "True"}},
                    {"storage": {"use_cache_subfolder_for_item": "True", "use_mtime_and_size_for_item_cache": "True"}},
                    {"storage": {"filesystem_cache_folder": "@tmp", "use_cache_subfolder_for_item": "True"}}]


def run_history(ctx, rng, length, hid):
    # ETags come out of the item cache: the cache layouts and keying modes are part of the histories
    variant = STORAGE_VARIANTS[hid % len(STORAGE_VARIANTS)]
    sim = davsim.Sim(ctx, conf=variant)
    reqs = []
    etag_of_content = {}     # stored text -> etag
    coll_etags = {}          # collection ETag -> state signature
    coll_sigs = {}
    try:
        # fixed scaffold: two calendars and an address book
        for r in ({"method": "MKCALENDAR", "path": ["u", "c1"], "props": []}, {"method": "MKCALENDAR", "path": ["u", "c2"], "props": []},
                  {"method": "MKCOL", "path": ["u", "ab"], "tag": "VADDRESSBOOK", "props": []}):
            sim.step(r, "u")
        known = []
        for i in range(length):
            coll = rng.choice([["u", "c1"], ["u", "c2"], ["u", "ab"]])
            href = rng.choice(["a.ics", "b.ics"]) if coll[-1] != "ab" else rng.choice(["k.vcf", "l.vcf"])
            k = rng.random()
            if k < 0.6:
                pool = [o for o in davsim.POOL if (o["kind"] == "VCARD") == (coll[-1] == "ab")]
                r = {"method": "PUT", "path": coll + [href], "body": "cards" if coll[-1] == "ab" else "cal", "objs": [rng.choice(pool)]}
            elif k < 0.8:
                r = {"method": "DELETE", "path": coll + [href], "as_collection": False}
            elif k < 0.86 and coll[-1] != "ab":
                # renaming keeps the contents of the collection but not its members' names
                r = {"method": "MOVE", "path": coll + [href], "dest": rng.choice([coll, ["u", "c1"], ["u", "c2"]]) + [rng.choice(["a.ics", "b.ics", "z.ics"])],
                     "overwrite": rng.random() < 0.5}
            elif k < 0.9:
                r = {"method": "PROPPATCH", "path": coll, "as_collection": True, "set": [["D:displayname", "n%d" % rng.randint(0, 5)]], "remove": [],
                     "sets_type": False, "bad_body": False}
            else:
                r = {"method": "PUT", "path": coll, "as_collection": True, "body": "cal",
                     "objs": [o for o in rng.sample(davsim.POOL, 3) if o["kind"] != "VCARD"][:2]}
                seen = set()
                r["objs"] = [o for o in r["objs"] if not (o["uid"] in seen or seen.add(o["uid"]))]
            if r["method"] in ("PUT", "DELETE") and not r.get("as_collection"):
                h = rng.random()
                # the current ETag of the target, a stale one, a foreign one, malformed ones, or none
                st0, hd0, _ = sim.app.request("HEAD", "/" + "/".join(r["path"]), login="u:pw")
                cur = hd0.get("ETag") if st0 == 200 else None
                if h < 0.3 and cur:
                    r.update(if_match_present=True, if_match_value=cur)
                elif h < 0.5 and known:
                    r.update(if_match_present=True, if_match_value=rng.choice(known))
                elif h < 0.6:
                    # malformed / unusual texts; what an empty header, a weak validator of the current ETag, a list containing it or
                    # a padded copy mean is the Lean model's business (CondHeaders), not the generator's
                    r.update(if_match_present=True, if_match_value=rng.choice(
                        ['"0000"', "*", 'W/"1"', '"a", "b"', ""] + ([cur + " ", " " + cur, "W/" + cur, cur + ', "x"', cur.strip('"'), cur.upper()] if cur else [])))
                elif h < 0.7 and r["method"] == "PUT":
                    r["if_none_match_star"] = True
                else:
                    davsim.vary_wire(rng, r, p=0.5)
            elif r["method"] == "MOVE":
                davsim.vary_wire(rng, r, p=0.4)
            if r["method"] in ("PUT", "DELETE") and not r.get("as_collection") and rng.random() < 0.12:
                r["trailing_slash"] = True      # the same resource, URL written with a trailing slash
            reqs.append(r)
            before = sim.real_dump()
            true_before = cache_free_etag(sim.app, "/" + "/".join(r["path"])) if r.get("if_match_present") and r.get("if_match_value") else None
            obs, ans, diffs = sim.step(r, "u")
            st = obs["status"]
            case = {"history": reqs, "storage_options": (variant or {}).get("storage", {})}
            ctx.case("%s:%s:%d" % (r["method"], "cond" if r.get("if_match_present") or r.get("if_none_match_star") else "plain", st),
                     sample={"request": {k2: v for k2, v in r.items() if k2 != "objs"}, "status": st}, key=[hid, i],
                     nontrivial=bool(r.get("if_match_present") or r.get("if_none_match_star")))
            if st == 412 and sim.real_dump() != before:
                ctx.violation("412 Precondition Failed but the store changed", case)
            # after a write that replaces or renames members: the ETags the server reports are those of the stored contents (a reference
            # server without item cache on a copy of the collection tree reports the same) - an ETag left over from replaced content would let a
            # stale If-Match through
            if st < 300 and ((r["method"] == "PUT" and r.get("as_collection")) or r["method"] == "MOVE"):
                for cp in {"/" + "/".join(r["path"] if r.get("as_collection") else r["path"][:-1]) + "/"} | (
                        {"/" + "/".join(r["dest"][:-1]) + "/"} if r["method"] == "MOVE" else set()):
                    mine, ref = member_etags(sim.app, cp), cache_free_member_etags(sim.app, cp)
                    if mine is not None and ref is not None and mine != ref:
                        bad = {h: (mine.get(h), ref.get(h)) for h in set(mine) | set(ref) if mine.get(h) != ref.get(h)}
                        ctx.violation("after %s the server reports ETags that are not those of the stored contents (reported, read without item cache): %s"
                                      % (r["method"], bad), case)
            # the handlers' tests on the header text against the Lean model's (CondHeaders.putRefuses / deleteRefuses), given the
            # target's ETag text before the request
            if r["method"] in ("PUT", "DELETE") and not r.get("as_collection") and (st == 412 or st < 300):
                w = davsim.wire_of(r)
                tb = next((it["etag_raw"] for e in before if e["path"] == r["path"][:-1] for it in e["items"] if it["href"] == r["path"][-1]), None)
                if not (r["method"] == "DELETE" and tb is None):
                    dg = ctx.driver.ask1(dict(w, m="condheaders", cur=tb, table=[]))
                    want = dg["put_refuses"] if r["method"] == "PUT" else dg["delete_refuses"]
                    if want != (st == 412):
                        ctx.disagree("conditional headers: %s with %s on a resource with ETag %r answered %d, the model %s" % (
                            r["method"], {k: v for k, v in w.items() if v is not None}, tb, st, "refuses (412)" if want else "goes ahead"),
                            case, [], None)
            # oracle for the conditions themselves
            if r["method"] in ("PUT", "DELETE") and not r.get("as_collection") and st < 300:
                tgt_before = None
                for e in before:
                    if e["path"] == r["path"][:-1]:
                        for it in e["items"]:
                            if it["href"] == r["path"][-1]:
                                tgt_before = it["etag_raw"]
                # (an empty header names no ETag: PUT treats it as absent, DELETE refuses it - neither is a conditional write gone wrong)
                imv = davsim.wire_of(r)["if_match"]
                case = dict(case, history=list(reqs))
                if imv and not (r["method"] == "DELETE" and imv == "*") and tgt_before != imv:
                    ctx.violation("request with If-Match %r carried out although the current ETag was %r" % (imv, tgt_before), case)
                if imv and imv != "*" and r.get("if_match_present") and true_before != imv:
                    ctx.violation("lost update: a request with If-Match %r was carried out although the stored resource (read without the item "
                                  "cache) has the ETag %r" % (imv, true_before), case)
                if davsim.wire_of(r)["if_none_match"] == "*" and tgt_before is not None:
                    ctx.violation("PUT with If-None-Match: * carried out although the resource existed", case)
            if r["method"] == "PUT" and not r.get("as_collection") and st == 201:
                known.append(obs["etag_raw"])
                known[:] = known[-8:]
                four_ways(ctx, sim, r["path"][:-1], r["path"][-1], obs["etag_raw"], case)
                # ETag <-> content
                _, _, text = sim.app.request("GET", "/" + "/".join(r["path"]), login="u:pw")
                if text in etag_of_content and etag_of_content[text] != obs["etag_raw"]:
                    ctx.violation("same content, different ETags", case)
                for t2, e2 in etag_of_content.items():
                    if e2 == obs["etag_raw"] and t2 != text:
                        ctx.violation("different content, same ETag", case)
                etag_of_content[text] = obs["etag_raw"]
            # the collection ETag identifies members (names and contents) and properties
            for e in sim.real_dump():
                if len(e["path"]) != 2:
                    continue
                cpath = "/" + "/".join(e["path"]) + "/"
                stc, _, textc = sim.app.request("PROPFIND", cpath, davsim.PROPFIND_BODY, login="u:pw", HTTP_DEPTH="0")
                if stc != 207:
                    continue
                msc, orderc, _ = davsim.parse_multistatus(textc)
                pr = msc.get(orderc[0]) if orderc else None
                cet = pr.get("D:getetag") if isinstance(pr, dict) else None
                if cet is None or cet[0] != 200:
                    continue
                sig = (cpath, tuple(sorted((it["href"], it["etag_raw"]) for it in e["items"])), tuple(map(tuple, e["props"])), e["tag"])
                ek = (cpath, cet[1].text)        # ETags are compared per resource
                if ek in coll_etags and coll_etags[ek] != sig:
                    ctx.violation("two different states of a collection (members / names / properties) have the same collection ETag",
                                  dict(case, collection=cpath, state_a=str(coll_etags[ek])[:300], state_b=str(sig)[:300]))
                if sig in coll_sigs and coll_sigs[sig] != cet[1].text:
                    ctx.violation("the same state of a collection has two different collection ETags", dict(case, collection=cpath))
                coll_etags[ek] = sig
                coll_sigs[sig] = cet[1].text
            if diffs:
                ctx.disagree("conditional request history vs model", case, diffs[:3], ans["status"] if ans else None)
                return
    finally:
        sim.close()


def racing_pair(ctx, rng, hid):
    """two clients hold the same ETag of one object and both send a conditional write; the first is held right before one of
    its acquisitions of the storage lock while the second runs to completion.  Exactly one of them may succeed (RFC 7232:
    the second one's precondition is false by then) — whatever lock windows the handlers use."""
    import threading
    from common import App
    ev = lambda uid, n: ("BEGIN:VCALENDAR\r\nVERSION:2.0\r\nPRODID:x\r\nBEGIN:VEVENT\r\nUID:%s\r\nDTSTAMP:20240101T000000Z\r\n"     # noqa: E731
                         "DTSTART:20240102T100000Z\r\nSUMMARY:v%d\r\nEND:VEVENT\r\nEND:VCALENDAR\r\n" % (uid, n))
    with App({"auth": {"type": "none"}}) as app:
        app.request("MKCALENDAR", "/u/c/", login="u:pw")
        st, hd, _ = app.request("PUT", "/u/c/a.ics", ev("a", 0), login="u:pw", CONTENT_TYPE="text/calendar")
        etag = hd.get("ETag")
        if st != 201 or not etag:
            return
        kinds = {"PUT": lambda n: ("PUT", "/u/c/a.ics", ev("a", n), {"HTTP_IF_MATCH": etag, "CONTENT_TYPE": "text/calendar"}),
                 "DELETE": lambda n: ("DELETE", "/u/c/a.ics", None, {"HTTP_IF_MATCH": etag}),
                 "MOVE-away": lambda n: ("MOVE", "/u/c/a.ics", None, {"HTTP_DESTINATION": "http://127.0.0.1/u/c/moved%d.ics" % n})}
        ka = rng.choice(["PUT", "DELETE", "DELETE"])
        kb = rng.choice(["PUT", "PUT", "DELETE"])
        hold_before = rng.choice([2, 3, 3])
        storage = app.storage
        orig = storage.acquire_lock
        state = {"n": 0, "tid": threading.get_ident(), "b": None, "b_status": None}

        def run_b():
            m, p, b, env = kinds[kb](2)
            state["b_status"] = app.request(m, p, b, login="u:pw", **env)[0]

        def gated(mode, user="", *a, **k):
            if threading.get_ident() == state["tid"]:
                state["n"] += 1
                if state["n"] == hold_before and state["b"] is None:
                    state["b"] = threading.Thread(target=run_b, daemon=True)
                    state["b"].start()
                    state["b"].join(timeout=20)
            return orig(mode, user, *a, **k)
        storage.acquire_lock = gated
        try:
            m, p, b, env = kinds[ka](1)
            sa = app.request(m, p, b, login="u:pw", **env)[0]
        finally:
            storage.acquire_lock = orig
        if state["b"] is not None:
            state["b"].join(timeout=30)
        sb = state["b_status"]
        case = {"held": ka + " If-Match", "in_between": kb + " If-Match", "held_before_lock_acquisition": hold_before,
                "statuses": {"held": sa, "in_between": sb}}
        ctx.case("racing:%s/%s" % (ka, kb), sample=case, key=["race", hid], nontrivial=sb is not None)
        if sb is not None and sa < 300 and sb < 300:
            ctx.violation("lost update: two writers conditional on the same ETag were both carried out (%s %d, %s %d)" % (ka, sa, kb, sb), case)
        if sb is not None and sa >= 300 and sb >= 300:
            ctx.violation("two writers conditional on the current ETag were both refused (%s %d, %s %d)" % (ka, sa, kb, sb), case)


def racing_pair_inside(ctx, rng, hid):
    """as racing_pair, but the first writer is held *inside* its exclusive window - after its precondition was evaluated, right before
    the item is written or removed - for a moment in which the second writer is started.  With a storage lock that excludes writers
    the second one waits and then finds its precondition false; for both storage types (flock-based and the in-process lock of
    multifilesystem_nolock) exactly one of the two is carried out"""
    import threading
    from common import App
    ev = lambda uid, n: ("BEGIN:VCALENDAR\r\nVERSION:2.0\r\nPRODID:x\r\nBEGIN:VEVENT\r\nUID:%s\r\nDTSTAMP:20240101T000000Z\r\n"     # noqa: E731
                         "DTSTART:20240102T100000Z\r\nSUMMARY:v%d\r\nEND:VEVENT\r\nEND:VCALENDAR\r\n" % (uid, n))
    stype = rng.choice(["multifilesystem", "multifilesystem_nolock", "multifilesystem_nolock", "two-servers"])
    two = stype == "two-servers"
    # "two-servers": two server instances on one storage folder, each with its own (node-local) cache folder; the second writer goes to the
    # other instance - what excludes them is the lock file in the shared storage folder
    conf = {"auth": {"type": "none"}, "storage": {"type": "multifilesystem" if two else stype}}
    if two:
        conf["storage"].update({"filesystem_cache_folder": "@tmp", "use_cache_subfolder_for_item": "True"})
    with App(conf) as app:
        app2 = app
        if two:
            os.makedirs(app.folder + "-cache2", exist_ok=True)
            app.extra_dirs = getattr(app, "extra_dirs", []) + [app.folder + "-cache2"]
            app2 = App({"auth": {"type": "none"}, "storage": {"type": "multifilesystem", "filesystem_cache_folder": app.folder + "-cache2",
                                                             "use_cache_subfolder_for_item": "True"}}, folder=app.folder)
        app.request("MKCALENDAR", "/u/c/", login="u:pw")
        st, hd, _ = app.request("PUT", "/u/c/a.ics", ev("a", 0), login="u:pw", CONTENT_TYPE="text/calendar")
        etag = hd.get("ETag")
        if st != 201 or not etag:
            return
        cond = rng.choice(["If-Match", "If-Match", "If-None-Match"])
        if cond == "If-None-Match":
            # two creators of the same new resource
            target = "/u/c/new.ics"
            kinds = {"PUT": lambda n: ("PUT", target, ev("n", n), {"HTTP_IF_NONE_MATCH": "*", "CONTENT_TYPE": "text/calendar"})}
            ka = kb = "PUT"
        else:
            kinds = {"PUT": lambda n: ("PUT", "/u/c/a.ics", ev("a", n), {"HTTP_IF_MATCH": etag, "CONTENT_TYPE": "text/calendar"}),
                     "DELETE": lambda n: ("DELETE", "/u/c/a.ics", None, {"HTTP_IF_MATCH": etag})}
            ka = rng.choice(["PUT", "DELETE"])
            kb = rng.choice(["PUT", "PUT", "DELETE"])
        cls = app.storage._collection_class
        orig_upload, orig_delete = cls.upload, cls.delete
        storage = app.storage
        orig_acquire = storage.acquire_lock
        orig_acquire2 = app2.storage.acquire_lock
        state = {"tid": threading.get_ident(), "b": None, "b_tid": None, "b_status": None, "b_done_inside": None, "na": 0, "nb": 0}
        b_ready, a_inside = threading.Event(), threading.Event()

        def run_b():
            state["b_tid"] = threading.get_ident()
            try:
                m, p, b, env = kinds[kb](2)
                state["b_status"] = app2.request(m, p, b, login="u:pw", **env)[0]
            finally:
                b_ready.set()

        def gated(mode, user="", *a, **k):
            # the schedule: the first writer stops before its exclusive window and lets the second one get as far as *its* exclusive
            # window (login and home-collection look-up done); then the first one goes in and is held at the write
            me = threading.get_ident()
            if me == state["tid"] and mode == "w" and state["b"] is None:
                state["b"] = threading.Thread(target=run_b, daemon=True)
                state["b"].start()
                b_ready.wait(timeout=10)
            elif me == state["b_tid"] and mode == "w":
                b_ready.set()
                a_inside.wait(timeout=10)
            return (orig_acquire2 if me == state["b_tid"] else orig_acquire)(mode, user, *a, **k)

        def hold():
            if threading.get_ident() == state["tid"] and state["b"] is not None and not a_inside.is_set():
                a_inside.set()
                state["b"].join(timeout=0.25)
                state["b_done_inside"] = not state["b"].is_alive()

        def upload(self, *a, **k):
            hold()
            return orig_upload(self, *a, **k)

        def delete(self, *a, **k):
            hold()
            return orig_delete(self, *a, **k)
        cls.upload, cls.delete = upload, delete
        storage.acquire_lock = gated
        app2.storage.acquire_lock = gated
        try:
            m, p, b, env = kinds[ka](1)
            sa = app.request(m, p, b, login="u:pw", **env)[0]
        finally:
            a_inside.set()
            cls.upload, cls.delete = orig_upload, orig_delete
            storage.acquire_lock = orig_acquire
            app2.storage.acquire_lock = orig_acquire2
        if state["b"] is not None:
            state["b"].join(timeout=30)
        sb = state["b_status"]
        case = {"storage_type": stype, "held_inside_its_write": "%s %s" % (ka, cond), "started_meanwhile": "%s %s" % (kb, cond),
                "second_finished_while_first_was_inside": state["b_done_inside"], "statuses": {"held": sa, "meanwhile": sb}}
        ctx.case("racing-inside:%s:%s/%s" % (stype, ka, kb), sample=case, key=["race-inside", hid], nontrivial=sb is not None)
        if sb is not None and sa < 300 and sb < 300:
            ctx.violation("lost update: two writers conditional on the same state (%s) were both carried out (%s %d, %s %d) with storage type %s"
                          % (cond, ka, sa, kb, sb, stype), case)
        if sb is not None and sa >= 300 and sb >= 300:
            ctx.violation("two writers conditional on the current state were both refused (%s %d, %s %d)" % (ka, sa, kb, sb), case)


def run(ctx):
    ctx.extra["rule"] = ("histories of 10-40 writes on 2 calendars and an address book with If-Match (current / stale / foreign / malformed / *) and "
                         "If-None-Match: *; after every successful PUT the ETag is read back through GET, HEAD, PROPFIND and REPORT; "
                         "non-trivial = the request carried a precondition")
    ctx.trusted += ["harness/davsim.py", "SHA-256 as injective (ETag bijection with content ids)", "interleavings reduce to serial orders (C09-C11); two racing conditional writers are scheduled explicitly (racing_pair)"]
    rng = ctx.rng("hist")
    for h in range(ctx.n(40, 3000)):
        run_history(ctx, rng, rng.randint(10, 40), h)
    rng2 = ctx.rng("race")
    for h in range(ctx.n(30, 600)):
        racing_pair(ctx, rng2, h)
    rng3 = ctx.rng("race-inside")
    for h in range(ctx.n(10, 120)):
        racing_pair_inside(ctx, rng3, h)
