"""C01 — stored data follows the DAV object model for every request history.

Theorems: lean/Props/C01.lean (sanity of the ideal store: last write wins, deleted/moved names are gone, a
replaced collection holds exactly the new members, failed requests are the identity).
Correspondence: random request histories against the real application and the model, compared after every
request: outcome class, ETag headers (up to renaming), listings, and a full dump through the storage API;
run on multifilesystem and multifilesystem_nolock and on several cache layouts, which must all agree.
"""
import davsim

PROP_FILES = ["Props/C01.lean"]
LEVEL = "proof"

CONFIGS = [
    ("mfs", {}),
    ("nolock", {"storage": {"type": "multifilesystem_nolock"}}),
    ("mfs+cachesub", {"storage": {"use_cache_subfolder_for_item": "True", "use_cache_subfolder_for_history": "True",
                                  "use_cache_subfolder_for_synctoken": "True"}}),
    ("mfs+mtime", {"storage": {"use_mtime_and_size_for_item_cache": "True"}}),
    ("mfs+cachefolder", {"storage": {"filesystem_cache_folder": "@tmp"}}),
    ("mfs+cachesub+mtime", {"storage": {"use_cache_subfolder_for_item": "True", "use_mtime_and_size_for_item_cache": "True"}}),
    ("nolock+cachefolder+cachesub+mtime", {"storage": {"type": "multifilesystem_nolock", "filesystem_cache_folder": "@tmp",
                                                       "use_cache_subfolder_for_item": "True", "use_mtime_and_size_for_item_cache": "True"}}),
    ("mfs+latin1", {"encoding": {"stock": "iso-8859-1"}}),
    ("nolock+latin1+mtime", {"storage": {"type": "multifilesystem_nolock", "use_mtime_and_size_for_item_cache": "True"},
                            "encoding": {"stock": "iso-8859-1", "request": "utf-8"}}),
    ("nolock+cachefolder+mtime", {"storage": {"type": "multifilesystem_nolock", "filesystem_cache_folder": "@tmp",
                                              "use_mtime_and_size_for_item_cache": "True"}}),
]


def run_history(ctx, rng, conf_name, conf, length, hist_id, check_post=False):
    sim = davsim.Sim(ctx, conf)
    known = []
    reqs = []
    try:
        pre = davsim.warmup(rng) if rng.random() < 0.6 else []
        for i in range(length):
            r = pre.pop(0) if pre else davsim.gen_request(rng, sim, known)
            user = "u" if rng.random() < 0.9 or i < 6 else "v"
            reqs.append((user, r))
            obs, ans, diffs = sim.step(r, user)
            if "etag_raw" in obs:
                known.append(obs["etag_raw"])
            for e in obs["entries"]:
                if e.get("etag_raw") and e["type"] == "item":
                    known.append(e["etag_raw"])
            known[:] = known[-12:]
            ctx.case("%s:%s:%d" % (conf_name, r["method"], obs["status"]),
                     sample={"request": {k: v for k, v in r.items() if k != "objs"}, "status": obs["status"]},
                     key=[hist_id, i], nontrivial=obs["status"] < 300)
            for d in diffs:
                if d.startswith("served content differs"):
                    ctx.violation("GET returns an object with other content than was stored (%s): %s" % (conf_name, d),
                                  {"config": conf_name, "history": [(u, {k: v for k, v in x.items() if k != "objs"}) for u, x in reqs]})
            if diffs:
                ctx.disagree("request history vs ideal DAV store (%s)" % conf_name,
                             {"config": conf_name, "history": [(u, {k: v for k, v in x.items()}) for u, x in reqs]}, diffs[:3],
                             {"status": ans["status"] if ans else None})
                # oracle: does the real server itself contradict the object model?  (independent of the Lean model)
                oracle(ctx, conf, reqs, conf_name)
                return False
        if check_post:
            # the postcondition oracle runs on clean histories too (it must be quiet where the property holds)
            oracle(ctx, conf, reqs, conf_name)
    finally:
        sim.close()
    return True


def oracle(ctx, conf, reqs, conf_name):
    """Failing-input search on the implementation alone (no Lean model involved): the history is replayed on a
    fresh application and every request is checked against the postcondition the DAV object model gives it,
    using storage-API dumps before and after: an acknowledged write changes exactly its target (a replaced
    collection holds exactly the uploaded objects), everything else - and everything on a refused or read-only
    request - stays as it was; PROPFIND Depth 1 shows what the storage holds."""
    fresh = davsim.Sim(ctx, conf)
    fresh.sid = None
    label_of_etag = {}      # ETag -> which uploaded content it was first shown for
    try:
        for k, (user, r) in enumerate(reqs):
            before = {tuple(e["path"]): e for e in fresh.real_dump()}
            obs, _, _ = fresh.step(r, user, compare_store=False)
            after = {tuple(e["path"]): e for e in fresh.real_dump()}
            problem = postcondition(r, user, obs["status"], before, after)
            if not problem and r["method"] == "PUT" and obs["status"] < 300 and r.get("objs"):
                # what an acknowledged upload stored is identified by its ETag: the ETag now shown for an uploaded object is not one
                # that was shown before for other content (pool objects with one UID differ in content, often not in length)
                whole = tuple(r["path"]) in after
                coll = tuple(r["path"]) if whole else tuple(r["path"][:-1])
                for it in (after.get(coll) or {"items": []})["items"]:
                    cids = tuple(sorted(o["cid"] for o in r["objs"] if o["uid"] == it["uid"]))
                    if not cids or (not whole and it["href"] != r["path"][-1]):
                        continue
                    label = ("whole-collection upload" if whole else "single upload", it["uid"], cids)
                    old = label_of_etag.setdefault(it["etag_raw"], label)
                    if old != label and old[1:] != label[1:]:
                        problem = ("the stored object with UID %s (content ids %s) is shown with the ETag %s that was shown before for other "
                                   "content (%s, content ids %s)" % (it["uid"], list(cids), it["etag_raw"], old[0], list(old[2])))
            if problem:
                ctx.violation("%s %s answered %d but %s" % (r["method"], "/".join(r["path"]), obs["status"], problem),
                              {"config": conf_name, "history": reqs[:k + 1]})
                return
        d = fresh.real_dump()
        for e in d:
            if not e["path"]:
                continue
            st, hd, text = fresh.app.request("PROPFIND", "/" + "/".join(e["path"]) + "/", davsim.PROPFIND_BODY, login="u:pw", HTTP_DEPTH="1")
            if st != 207:
                continue
            ms, order, _ = davsim.parse_multistatus(text)
            listed = sorted(davsim.canon_href(h.rstrip("/").rsplit("/", 1)[1]) for h in order if h.rstrip("/") != "/" + "/".join(e["path"]))
            expect = sorted([i["href"] for i in e["items"]] + [x["path"][-1] for x in d if x["path"][:-1] == e["path"] and x["path"]])
            if listed != expect:
                ctx.violation("PROPFIND Depth 1 of /%s lists %s but the storage API holds %s" % ("/".join(e["path"]), listed, expect),
                              {"config": conf_name, "history": reqs})
        # a query that selects everything (calendar-query / addressbook-query without conditions) and a sync-collection without token show the
        # members PROPFIND Depth 1 shows, with the same ETags: three listings of one collection
        for e in d:
            if not e["path"] or not e["tag"]:
                continue
            cp = "/" + "/".join(e["path"]) + "/"
            st, _, text = fresh.app.request("PROPFIND", cp, davsim.PROPFIND_BODY, login="u:pw", HTTP_DEPTH="1")
            if st != 207:
                continue
            ms, order, _ = davsim.parse_multistatus(text)
            base = {h: (p_["D:getetag"][1].text if isinstance(p_, dict) and "D:getetag" in p_ else None) for h, p_ in ms.items() if h.rstrip("/") != cp.rstrip("/")}
            qbody = ('<?xml version="1.0"?><C:calendar-query xmlns:D="DAV:" xmlns:C="urn:ietf:params:xml:ns:caldav"><D:prop><D:getetag/></D:prop><C:filter>'
                     '<C:comp-filter name="VCALENDAR"/></C:filter></C:calendar-query>') if e["tag"] == "VCALENDAR" else \
                    ('<?xml version="1.0"?><CR:addressbook-query xmlns:D="DAV:" xmlns:CR="urn:ietf:params:xml:ns:carddav"><D:prop><D:getetag/></D:prop><CR:filter/>'
                     '</CR:addressbook-query>')
            sbody = '<?xml version="1.0"?><D:sync-collection xmlns:D="DAV:"><D:sync-token/><D:prop><D:getetag/></D:prop></D:sync-collection>'
            for kind, body in (("query selecting everything", qbody), ("sync-collection without token", sbody)):
                st2, _, t2 = fresh.app.request("REPORT", cp, body, login="u:pw")
                if st2 != 207:
                    ctx.violation("%s on %s answered %d" % (kind, cp, st2), {"config": conf_name, "history": reqs})
                    continue
                ms2, _, _ = davsim.parse_multistatus(t2)
                # (an initial sync may mention remembered removals as 404: they are no members)
                got = {h: (p_["D:getetag"][1].text if isinstance(p_, dict) and "D:getetag" in p_ else None) for h, p_ in ms2.items() if p_ != 404}
                if got != base:
                    ctx.violation("%s on %s lists %s, PROPFIND Depth 1 lists %s" % (kind, cp, sorted(got.items()), sorted(base.items())),
                                  {"config": conf_name, "history": [(u, {k: v for k, v in x.items() if k != "objs"}) for u, x in reqs]})
        # every object is served with the text it was stored with (all pool objects carry "café")
        import re
        from common import dump_store
        for cpath, ce in dump_store(fresh.app, with_text=False).items():
            for href in ce["items"]:
                st, hd, text = fresh.app.request("GET", cpath.rstrip("/") + "/" + href, login="u:pw")
                bad = [l for l in re.findall(r"(?:SUMMARY|FN):c\d+[^\r\n]*", text) if not l.endswith(" caf\u00e9")] if st == 200 else ["GET answered %d" % st]
                if bad:
                    ctx.violation("object %s/%s is served as %r, it was stored with the text 'c<n> caf\u00e9'" % (cpath, href, bad[:2]),
                                  {"config": conf_name, "history": [(u, {k: v for k, v in x.items() if k != "objs"}) for u, x in reqs]})
                    return
    finally:
        fresh.close()


def _items(e):
    return {i["href"]: (i["uid"], i["etag_raw"]) for i in e["items"]}


def postcondition(r, user, status, before, after):
    """None, or what is wrong with `after` given `before` and the acknowledged request"""
    # the principal collection of the user is created on the fly by any authenticated request
    if user and (user,) not in before and (user,) in after:
        before = dict(before)
        before[(user,)] = {"path": [user], "tag": "", "props": [], "items": []}
    m = r["method"]
    target = tuple(r["path"])
    ok = status < 300

    def unchanged_except(paths_prefix=(), item=None):
        for p in set(before) | set(after):
            if any(p[:len(q)] == q for q in paths_prefix):
                continue
            if (p in before) != (p in after):
                return "collection /%s %s" % ("/".join(p), "appeared" if p in after else "disappeared")
            b, a = _items(before[p]), _items(after[p])
            if item and p == item[0]:
                b.pop(item[1], None)
                a.pop(item[1], None)
            if b != a:
                return "members of /%s changed: %s -> %s" % ("/".join(p), sorted(b), sorted(a))
            if m != "PROPPATCH" and (before[p]["tag"], before[p]["props"]) != (after[p]["tag"], after[p]["props"]):
                return "properties of /%s changed" % "/".join(p)
        return None
    for p, e in after.items():
        uids = [i["uid"] for i in e["items"]]
        if len(uids) != len(set(uids)) and (p not in before or sorted(uids) != sorted(i["uid"] for i in before[p]["items"])):
            return "collection /%s now holds two objects with one UID: %s" % ("/".join(p), sorted(uids))
    if not ok or m in ("GET", "PROPFIND", "MULTIGET"):
        return unchanged_except()
    if m == "PUT" and target in after:
        # the target is a collection afterwards: it was replaced, or created from the body (a PUT on a free name
        # below an untagged collection does that; below a tagged one it stores an item, trailing slash or not)
        got = sorted(u for u, _ in _items(after[target]).values())
        want = sorted(set(o["uid"] for o in r["objs"]))
        if got != want:
            return "the collection holds objects with UIDs %s, the upload had %s" % (got, want)
        return unchanged_except(paths_prefix=(target,))
    if m == "PUT":
        coll, href = target[:-1], target[-1]
        if coll not in after or href not in _items(after[coll]):
            return "the item does not exist afterwards"
        if _items(after[coll])[href][0] not in [o["uid"] for o in r["objs"]] and r["objs"]:
            return "the stored item has UID %s" % _items(after[coll])[href][0]
        if coll in before and href in _items(before[coll]) and _items(before[coll])[href][0] != _items(after[coll])[href][0]:
            return ("an existing object (UID %s) was overwritten with one that has another UID (%s): RFC 4791 5.3.2.1 / RFC 6352 6.3.2.1 "
                    "no-uid-conflict asks for a conflict answer" % (_items(before[coll])[href][0], _items(after[coll])[href][0]))
        return unchanged_except(item=(coll, href))
    if m == "DELETE":
        # (a collection can be addressed without the trailing slash, and an item - a member of a calendar - with one)
        is_item = target not in before and target[:-1] in before and target[-1] in _items(before[target[:-1]])
        if (r.get("as_collection") or target in before) and not is_item:
            if any(p[:len(target)] == target for p in after):
                return "the collection or something below it still exists"
            return unchanged_except(paths_prefix=(target,))
        coll, href = target[:-1], target[-1]
        if coll in after and href in _items(after[coll]):
            return "the item still exists"
        return unchanged_except(item=(coll, href))
    if m == "MOVE":
        sc, sh = target[:-1], target[-1]
        dst = tuple(r["dest"])
        dc, dh = dst[:-1], dst[-1]
        if dst == target:
            return unchanged_except()
        if sc in after and sh in _items(after[sc]):
            return "the source still exists"
        if dc not in after or dh not in _items(after[dc]):
            return "the destination does not exist"
        if sc in before and sh in _items(before[sc]) and _items(after[dc])[dh][0] != _items(before[sc])[sh][0]:
            return "the destination holds UID %s, the source had %s" % (_items(after[dc])[dh][0], _items(before[sc])[sh][0])
        if dc in before and dh in _items(before[dc]) and _items(before[dc])[dh][0] != _items(after[dc])[dh][0]:
            return ("an existing object (UID %s) was overwritten by MOVE with one that has another UID (%s): no-uid-conflict asks for a "
                    "conflict answer" % (_items(before[dc])[dh][0], _items(after[dc])[dh][0]))
        # both names excepted
        b2 = {p: dict(e, items=[i for i in e["items"] if (p, i["href"]) not in ((sc, sh), (dc, dh))]) for p, e in before.items()}
        a2 = {p: dict(e, items=[i for i in e["items"] if (p, i["href"]) not in ((sc, sh), (dc, dh))]) for p, e in after.items()}
        for p in set(b2) | set(a2):
            if (p in b2) != (p in a2) or _items(b2[p]) != _items(a2[p]):
                return "something besides source and destination changed in /%s" % "/".join(p)
        return None
    if m in ("MKCOL", "MKCALENDAR"):
        if target not in after:
            return "the collection does not exist afterwards"
        if _items(after[target]):
            return "the new collection is not empty"
        want_tag = "VCALENDAR" if m == "MKCALENDAR" else (r.get("tag") or "")
        if after[target]["tag"] != want_tag:
            return "the new collection has type %r, the request asked for %r" % (after[target]["tag"], want_tag)
        have = {tuple(x) for x in after[target]["props"]}
        missing = [list(x) for x in r.get("props", []) if tuple(x) not in have]
        if missing:
            return "the new collection lacks the properties %s set by the request" % missing
        return unchanged_except(paths_prefix=(target,))
    if m == "PROPPATCH":
        if target in after:
            have = dict(tuple(x) for x in after[target]["props"])
            for k2, v2 in r.get("set", []):
                if k2 not in r.get("remove", []) and have.get(k2) != v2 and not r.get("order") is None:
                    return "property %s is %r after a PROPPATCH whose last instruction for it sets %r" % (k2, have.get(k2), v2)
            for k2 in r.get("remove", []):
                if r.get("order") and k2 in have:
                    return "property %s is still %r after a PROPPATCH whose last instruction for it removes it" % (k2, have[k2])
        return unchanged_except()
    return None


PROP_KEYS = [("D:displayname", '<D:displayname%s', "</D:displayname>"),
             ("C:calendar-description", '<C:calendar-description xmlns:C="urn:ietf:params:xml:ns:caldav"%s', "</C:calendar-description>"),
             ("ICAL:calendar-color", '<I:calendar-color xmlns:I="http://apple.com/ns/ical/"%s', "</I:calendar-color>")]


def props_level(ctx):
    """`props_from_request` and PROPPATCH against the model (lean/RadicaleModel/PropsReq.lean): bodies with several `set` and
    `remove` instructions per property in any order and grouping; the function's result, and the stored properties afterwards"""
    import xml.etree.ElementTree as ET
    from radicale import xmlutils
    from common import App
    rng = ctx.rng("props")
    for i in range(ctx.n(150, 6000)):
        instrs = []
        for _ in range(rng.randint(0, 6)):
            k = rng.choice(PROP_KEYS)
            instrs.append({"set": rng.random() < 0.55, "key": k[0], "value": rng.choice(["a", "b", "", "x y", "#ff0000"])})
            if not instrs[-1]["set"]:
                instrs[-1]["value"] = ""
        # consecutive instructions of one kind may share one <set> / <remove> element (several properties in one <prop>)
        body = '<?xml version="1.0"?><D:propertyupdate xmlns:D="DAV:">'
        j = 0
        while j < len(instrs):
            kind = instrs[j]["set"]
            group = [instrs[j]]
            while j + 1 < len(instrs) and instrs[j + 1]["set"] == kind and rng.random() < 0.5:
                j += 1
                group.append(instrs[j])
            j += 1
            inner = ""
            for ins in group:
                spec = [k for k in PROP_KEYS if k[0] == ins["key"]][0]
                inner += (spec[1] % (">" + ins["value"]) + spec[2]) if kind else (spec[1] % "/>")
            body += ("<D:set><D:prop>%s</D:prop></D:set>" if kind else "<D:remove><D:prop>%s</D:prop></D:remove>") % inner
        body += "</D:propertyupdate>"
        initial = [[k[0], "init"] for k in PROP_KEYS if rng.random() < 0.5]
        real = list(xmlutils.props_from_request(ET.fromstring(body)).items())
        case = {"instructions": instrs, "initial": initial}
        ctx.case("props:%d-instructions" % len(instrs), sample=case, key=["props", i], nontrivial=len(instrs) > 1)
        a = ctx.driver.ask1({"m": "propsreq", "instrs": instrs, "props": initial}) if ctx.driver else None
        if a is not None and [list(x) for x in real] != a["result"]:
            ctx.disagree("props_from_request vs model", case, [list(x) for x in real], a["result"])
        # independent of the model: the last instruction per property decides
        last = {}
        for ins in instrs:
            last[ins["key"]] = ins
        want = {k: (ins["value"] if ins["set"] else None) for k, ins in last.items()}
        if dict(real) != want:
            ctx.violation("props_from_request returns %s, the last instruction per property gives %s" % (dict(real), want), case, want, dict(real))
        if i % 5 == 0:
            with App({"auth": {"type": "none"}}) as app:
                app.request("MKCALENDAR", "/u/c/", login="u:pw")
                if initial:
                    ib = '<?xml version="1.0"?><D:propertyupdate xmlns:D="DAV:"><D:set><D:prop>%s</D:prop></D:set></D:propertyupdate>' % "".join(
                        [k for k in PROP_KEYS if k[0] == key][0][1] % (">" + v) + [k for k in PROP_KEYS if k[0] == key][0][2] for key, v in initial)
                    app.request("PROPPATCH", "/u/c/", ib, login="u:pw")
                st, _, _ = app.request("PROPPATCH", "/u/c/", body, login="u:pw")
                with app.storage.acquire_lock("r"):
                    meta = dict(next(iter(app.storage.discover("/u/c/"))).get_meta())
            stored = {k: v for k, v in meta.items() if k in [x[0] for x in PROP_KEYS]}
            exp = dict((k, v) for k, v in initial)
            for k, v in want.items():
                if v is None:
                    exp.pop(k, None)
                else:
                    exp[k] = v
            if st == 207 and stored != exp:
                ctx.violation("after the PROPPATCH the collection has %s, the last instruction per property gives %s" % (stored, exp), case, exp, stored)
            if a is not None and st == 207 and stored != dict(tuple(x) for x in a["props"]):
                ctx.disagree("properties after PROPPATCH vs model", case, stored, a["props"])


def property_values_level(ctx):
    """what PROPPATCH acknowledges is what PROPFIND shows afterwards, for the kinds of value clients set on collections: plain text (also
    padded, multi-line, non-ASCII, with characters XML escapes), an empty value, the component-set and time-zone properties of CalDAV - and
    a dead property whose value is XML (known finding F35: only the text of a value is kept)"""
    import re
    from common import App
    ns = 'xmlns:D="DAV:" xmlns:C="urn:ietf:params:xml:ns:caldav" xmlns:I="http://apple.com/ns/ical/" xmlns:X="http://example.com/ns"'
    cases = [("I:calendar-color", "#FF0000FF", None), ("D:displayname", "  padded  name  ", None), ("D:displayname", "multi\nline", None),
             ("D:displayname", "caf\u00e9 \U0001f600 &amp; &lt;b&gt;", None), ("X:custom", "v", None), ("I:calendar-order", "3", None),
             ("C:calendar-timezone", "BEGIN:VCALENDAR\nBEGIN:VTIMEZONE\nTZID:Europe/Berlin\nEND:VTIMEZONE\nEND:VCALENDAR\n", None),
             ("X:nested", "<X:a>1</X:a><X:b>2</X:b>", "F35"), ("X:mixed", "text<X:a>1</X:a>", "F35")]
    with App({"auth": {"type": "none"}}) as app:
        app.request("MKCALENDAR", "/u/c/", login="u:pw")
        for tag, val, finding in cases:
            local = tag.split(":")[1]
            st, _, t1 = app.request("PROPPATCH", "/u/c/", '<?xml version="1.0"?><D:propertyupdate %s><D:set><D:prop><%s>%s</%s></D:prop></D:set></D:propertyupdate>'
                                    % (ns, tag, val, tag), login="u:pw")
            acknowledged = st == 207 and " 200 " in t1
            st2, _, t2 = app.request("PROPFIND", "/u/c/", '<?xml version="1.0"?><D:propfind %s><D:prop><%s/></D:prop></D:propfind>' % (ns, tag), login="u:pw", HTTP_DEPTH="0")
            m = re.search(r"<(?:\w+:)?%s[^>]*?(?:/>|>(.*?)</(?:\w+:)?%s>)" % (local, local), t2, re.S)
            shown = (m.group(1) or "") if m else None
            case = {"property": tag, "value": val[:80], "proppatch": st, "acknowledged": acknowledged, "shown": shown}
            ctx.case("propvalue:%s" % tag, sample=case, key=["propvalue", tag, val], nontrivial=True)
            if not acknowledged:
                continue
            # (an XML value: the element names are what counts, prefixes may differ)
            want = re.sub(r"</?\w+:", lambda mm: mm.group(0)[0] + ("/" if "/" in mm.group(0) else ""), val)
            got = re.sub(r"</?\w+:", lambda mm: mm.group(0)[0] + ("/" if "/" in mm.group(0) else ""), shown or "")
            got = re.sub(r"\s*xmlns:\w+=\"[^\"]*\"", "", got)
            if got != want:
                ctx.violation("PROPPATCH acknowledged %s = %r, PROPFIND then shows %r" % (tag, val[:60], shown), case, val, shown, finding=finding)


def run(ctx):
    ctx.extra["rule"] = ("random histories of 5-40 requests (MKCOL, MKCALENDAR, PUT item / whole collection, DELETE, MOVE +-Overwrite, PROPPATCH, "
                         "GET, PROPFIND 0/1, multiget) over 9 collection paths, 7 hrefs, 6 UIDs, calendars and address books, with conditional "
                         "headers, two users; compared after every request; a case = one request of a history; non-trivial = it succeeded")
    ctx.trusted += ["harness/davsim.py (translation between abstract requests and HTTP, canonical observations)",
                    "SHA-256 ETags as injective function of content (compared up to renaming)"]
    ctx.assumptions += ["sequential execution (concurrency is C09)", "bodies limited to the object pool (valid and invalid combinations)"]
    props_level(ctx)
    property_values_level(ctx)
    rng = ctx.rng("hist")
    n = ctx.n(40, 1500)
    # quick: the two back-ends, plus one of the cache layouts in turn
    confs = CONFIGS[:2] if ctx.tier == "quick" else CONFIGS
    for h in range(n):
        seed_state = rng.getstate()
        length = rng.randint(5, 40)
        for name, conf in (confs + [CONFIGS[2 + h % (len(CONFIGS) - 2)]] if ctx.tier == "quick" else confs):
            rng.setstate(seed_state)
            rng.randint(5, 40)
            run_history(ctx, rng, name, conf, length, h, check_post=(name == confs[0][0]))
