"""C01 — stored data follows the DAV object model for every request history.

Theorems: lean/Props/C01.lean (sanity of the ideal store: last write wins, deleted/moved names are gone, a
replaced collection holds exactly the new members, failed requests are the identity).
Correspondence: random request histories against the real application and the model, compared after every
request: outcome class, ETag headers (up to renaming), listings, and a full dump through the storage API;
run on multifilesystem and multifilesystem_nolock and on several cache layouts, which must all agree.
"""
import davsim

PROP_FILES = ["Props/C01.lean"]
LEVEL = "proof"

CONFIGS = [
    ("mfs", {}),
    ("nolock", {"storage": {"type": "multifilesystem_nolock"}}),
    ("mfs+cachesub", {"storage": {"use_cache_subfolder_for_item": "True", "use_cache_subfolder_for_history": "True",
                                  "use_cache_subfolder_for_synctoken": "True"}}),
    ("mfs+mtime", {"storage": {"use_mtime_and_size_for_item_cache": "True"}}),
]


def run_history(ctx, rng, conf_name, conf, length, hist_id):
    sim = davsim.Sim(ctx, conf)
    known = []
    reqs = []
    try:
        for i in range(length):
            r = davsim.gen_request(rng, sim, known)
            user = "u" if rng.random() < 0.9 else "v"
            reqs.append((user, r))
            obs, ans, diffs = sim.step(r, user)
            if "etag_raw" in obs:
                known.append(obs["etag_raw"])
            for e in obs["entries"]:
                if e.get("etag_raw") and e["type"] == "item":
                    known.append(e["etag_raw"])
            known[:] = known[-12:]
            ctx.case("%s:%s:%d" % (conf_name, r["method"], obs["status"]),
                     sample={"request": {k: v for k, v in r.items() if k != "objs"}, "status": obs["status"]},
                     key=[hist_id, i], nontrivial=obs["status"] < 300)
            if diffs:
                ctx.disagree("request history vs ideal DAV store (%s)" % conf_name,
                             {"config": conf_name, "history": [(u, {k: v for k, v in x.items()}) for u, x in reqs]}, diffs[:3],
                             {"status": ans["status"] if ans else None})
                # oracle: does the real server itself contradict the object model?  (independent of the Lean model)
                oracle(ctx, sim, reqs, conf_name)
                return False
    finally:
        sim.close()
    return True


def oracle(ctx, sim, reqs, conf_name):
    """model-independent sanity of what the real server shows after the history: every PROPFIND listing agrees
    with the storage API dump, and both back-ends agree (checked by the caller running all configurations)."""
    d = sim.real_dump()
    for e in d:
        if not e["path"]:
            continue
        st, hd, text = sim.app.request("PROPFIND", "/" + "/".join(e["path"]) + "/", davsim.PROPFIND_BODY, login="u:pw", HTTP_DEPTH="1")
        if st != 207:
            continue
        ms, order, _ = davsim.parse_multistatus(text)
        listed = sorted(h.rstrip("/").rsplit("/", 1)[1] for h in order if h.rstrip("/") != "/" + "/".join(e["path"]))
        expect = sorted([i["href"] for i in e["items"]] + [x["path"][-1] for x in d if x["path"][:-1] == e["path"] and x["path"]])
        if listed != expect:
            ctx.violation("PROPFIND Depth 1 of /%s lists %s but the storage API holds %s" % ("/".join(e["path"]), listed, expect),
                          {"config": conf_name, "history": reqs})


def run(ctx):
    ctx.extra["rule"] = ("random histories of 5-40 requests (MKCOL, MKCALENDAR, PUT item / whole collection, DELETE, MOVE +-Overwrite, PROPPATCH, "
                         "GET, PROPFIND 0/1, multiget) over 9 collection paths, 7 hrefs, 6 UIDs, calendars and address books, with conditional "
                         "headers, two users; compared after every request; a case = one request of a history; non-trivial = it succeeded")
    ctx.trusted += ["harness/davsim.py (translation between abstract requests and HTTP, canonical observations)",
                    "SHA-256 ETags as injective function of content (compared up to renaming)"]
    ctx.assumptions += ["sequential execution (concurrency is C09)", "bodies limited to the object pool (valid and invalid combinations)"]
    rng = ctx.rng("hist")
    n = ctx.n(40, 1500)
    confs = CONFIGS[:2] if ctx.tier == "quick" else CONFIGS
    for h in range(n):
        seed_state = rng.getstate()
        length = rng.randint(5, 40)
        for name, conf in confs:
            rng.setstate(seed_state)
            rng.randint(5, 40)
            run_history(ctx, rng, name, conf, length, h)
