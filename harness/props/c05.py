"""C05 — only credentials the auth back-end accepts authenticate, as exactly that user.

Theorems: lean/Props/C05.lean.  Correspondence: (a) htpasswd `Auth.login` on generated files (comments, blank
lines, colons and non-ASCII in passwords, every scheme side by side, near-miss and wrong-length hashes,
duplicates after a rewrite) for every htpasswd_encryption x htpasswd_cache x lc/uc/strip_domain, against
the model whose hash oracle is a table computed once with passlib/bcrypt; (b) whole requests: header shapes
(none, Basic ok/wrong/malformed, other schemes), identity headers, unsafe user names, for the back-ends none /
denyall / htpasswd / remote_user / http_x_remote_user: status, WWW-Authenticate, the principal the request was
served as, and the on-disk store after rejected requests.
The oracle is independent of the model: the truth table of the generated file.
"""
import base64
import os
import tempfile

from common import App, disk_snapshot, quiet_radicale

PROP_FILES = ["Props/C05.lean"]
LEVEL = "proof"


def chars(s):
    return [ord(c) for c in s]


def unchars(a):
    return "".join(chr(x) for x in a)


_HASHES = None


def hash_pool():
    """(scheme, password) -> hash, computed once (cheap cost parameters)"""
    global _HASHES
    if _HASHES is None:
        import bcrypt
        from passlib.hash import apr_md5_crypt, sha256_crypt, sha512_crypt
        _HASHES = {}
        for pw in ["secret", "p:w", "pässwörd", " lead", "x"]:
            _HASHES[("md5", pw)] = apr_md5_crypt.using(salt="abcdefgh").hash(pw)
            _HASHES[("sha256", pw)] = sha256_crypt.using(rounds=1000, salt="abcdefghijklmnop").hash(pw)
            _HASHES[("sha512", pw)] = sha512_crypt.using(rounds=1000, salt="abcdefghijklmnop").hash(pw)
            _HASHES[("bcrypt", pw)] = bcrypt.hashpw(pw.encode(), bcrypt.gensalt(rounds=4)).decode()
    return _HASHES


PWS = ["secret", "p:w", "pässwörd", " lead", "x", "wrong", "", "secret ", "Secret"]
LOGINS = ["alice", "bob", "Bob", "carol@ex.org", "dave", "a:b", "é", "eve"]


def verify_real(scheme, h, pw):
    """what passlib/bcrypt say (the oracle table); None = ValueError"""
    import bcrypt
    from passlib.hash import apr_md5_crypt, sha256_crypt, sha512_crypt
    try:
        if scheme == "md5":
            return apr_md5_crypt.verify(pw, h)
        if scheme == "sha256":
            return sha256_crypt.verify(pw, h)
        if scheme == "sha512":
            return sha512_crypt.verify(pw, h)
        if scheme == "bcrypt":
            return bcrypt.checkpw(pw.encode("utf-8"), h.encode())
    except ValueError:
        return None
    return None


def gen_file(rng, scheme):
    """lines + truth: login -> (stored digest, scheme used for it)"""
    hp = hash_pool()
    lines = []
    entries = {}
    for login in rng.sample(LOGINS, rng.randint(1, 6)):
        if ":" in login:
            continue
        pw = rng.choice(PWS[:5])
        s = scheme if scheme != "autodetect" else rng.choice(["plain", "md5", "sha256", "sha512", "bcrypt"])
        k = rng.random()
        if s == "plain":
            digest = pw
        else:
            digest = hp[(s, pw)]
            if k < 0.15:
                digest = digest[:-1]                    # wrong length
            elif k < 0.25:
                digest = digest[:-1] + ("A" if digest[-1] != "A" else "B")     # near miss
        if digest == "":
            continue
        if rng.random() < 0.1:
            lines.append(rng.choice(["", "   ", "# comment", "#%s:%s" % (login, digest)]))
        lines.append("%s:%s" % (login, digest))
        entries.setdefault(login, digest)
    return lines, entries


def oracle_table(scheme, entries):
    """rows for the model's hash oracle and a Python truth function"""
    rows = []
    for login, digest in entries.items():
        for pw in PWS:
            for s in ("md5", "sha256", "sha512", "bcrypt"):
                h = digest.strip() if s != "bcrypt" else digest
                ok = verify_real(s, h, pw)
                rows.append({"scheme": s, "hash": chars(h), "pw": chars(pw), "ok": ok})
    return rows


def truth(scheme, digest, pw):
    """expected result of verifying `pw` against the stored digest (independent of the Lean model)"""
    import re
    if scheme == "plain":
        return digest == pw
    if scheme == "autodetect":
        if digest.startswith("$apr1$"):
            return (digest == pw) if len(digest) != 37 else bool(verify_real("md5", digest.strip(), pw))
        if re.match(r"^\$2(a|b|x|y)?\$", digest):
            return (digest == pw) if len(digest) != 60 else bool(verify_real("bcrypt", digest, pw))
        if digest.startswith("$5$"):
            return (digest == pw) if len(digest) != 63 else bool(verify_real("sha256", digest.strip(), pw))
        if digest.startswith("$6$"):
            return (digest == pw) if len(digest) != 106 else bool(verify_real("sha512", digest.strip(), pw))
        return digest == pw
    return bool(verify_real(scheme, digest.strip() if scheme != "bcrypt" else digest, pw))


def htpasswd_level(ctx):
    from radicale import auth, config
    quiet_radicale()
    rng = ctx.rng("htpasswd")
    n = ctx.n(120, 6000)
    for i in range(n):
        scheme = rng.choice(["plain", "md5", "sha256", "sha512", "bcrypt", "autodetect"])
        lines, entries = gen_file(rng, scheme)
        if not entries:
            continue
        f = tempfile.NamedTemporaryFile("w", suffix=".htpasswd", delete=False, encoding="utf-8")
        f.write("\n".join(lines) + "\n")
        f.close()
        try:
            cache = rng.random() < 0.5
            # the login cache in front of the back-end (C17's subject) must be invisible here too: the file does not change during the
            # attempts, so with it every answer is still the file's
            login_cache = rng.random() < 0.35
            conf = config.load()
            conf.update({"auth": {"type": "htpasswd", "htpasswd_filename": f.name, "htpasswd_encryption": scheme,
                                  "htpasswd_cache": str(cache), "delay": "0", "cache_logins": str(login_cache)}}, "verif", privileged=True)
            try:
                a = auth.load(conf)
            except RuntimeError as e:
                ctx.case("htpasswd:init-error", sample={"lines": lines, "error": str(e)[:80]}, key=[i, "init"], nontrivial=False)
                continue
            rows = oracle_table(scheme, entries)
            attempts = []
            for _ in range(12):
                login = rng.choice(list(entries) + ["nobody", "", "alice "])
                pw = rng.choice(PWS)
                attempts.append((login, pw))
                if login_cache and login in entries and rng.random() < 0.5:
                    # the same login again with another password, and the first one once more
                    attempts += [(login, rng.choice(PWS)), (login, pw)]
            reqs = [{"m": "authgate", "op": "htpasswd", "lines": [chars(x) for x in lines], "scheme": scheme, "oracle": rows,
                     "login": chars(l), "pw": chars(p)} for l, p in attempts]
            ans = ctx.driver.ask(reqs) if ctx.driver else [None] * len(reqs)
            for (login, pw), a_ in zip(attempts, ans):
                try:
                    got = a.login(login, pw)[0] if login else ""
                except Exception as e:
                    got = "EXC:" + repr(e)
                exp = login if (login in entries and truth(scheme, entries[login], pw)) else ""
                case = {"scheme": scheme, "cache": cache, "login_cache": login_cache, "lines": lines, "login": login, "password": pw,
                        "attempts_so_far": attempts[:attempts.index((login, pw)) + 1] if login_cache else None}
                ctx.case("htpasswd:%s:%s%s" % (scheme, "ok" if exp else "reject", ":login-cache" if login_cache else ""), sample=dict(case, result=got),
                         key=[i, login, pw],
                         nontrivial=bool(exp) or login in entries)
                if got != exp:
                    ctx.violation("htpasswd login returns %r, the file says %r" % (got, exp), case, exp, got)
                if a_ is not None and unchars(a_["r"]) != got:
                    ctx.disagree("htpasswd Auth.login vs model", case, got, unchars(a_["r"]))
        finally:
            os.unlink(f.name)


def cache_history_level(ctx):
    """htpasswd_cache = True: histories of file edits (same size / other size / touch only) and logins; every
    answer must be the one the file as it is now gives (oracle) and the cached model's (correspondence)."""
    from radicale import auth, config
    quiet_radicale()
    rng = ctx.rng("htcache")
    hp = hash_pool()
    n = ctx.n(60, 3000)
    users = ["alice", "bobby", "carol", "dave1"]           # equal length: swapping one for another keeps the size
    pws = ["secret", "wrong!", "Secret"]                    # equal length
    for i in range(n):
        scheme = rng.choice(["plain", "md5", "sha256", "sha512", "bcrypt", "autodetect"])

        def digest(pw):
            s_ = scheme if scheme != "autodetect" else "md5"      # $apr1$, 37 characters
            if s_ == "plain":
                return pw
            if (s_, pw) not in hp:
                import bcrypt
                from passlib.hash import apr_md5_crypt, sha256_crypt, sha512_crypt
                hp[(s_, pw)] = {"md5": lambda: apr_md5_crypt.using(salt="abcdefgh").hash(pw),
                                "sha256": lambda: sha256_crypt.using(rounds=1000, salt="abcdefghijklmnop").hash(pw),
                                "sha512": lambda: sha512_crypt.using(rounds=1000, salt="abcdefghijklmnop").hash(pw),
                                "bcrypt": lambda: bcrypt.hashpw(pw.encode(), bcrypt.gensalt(rounds=4)).decode()}[s_]()
            return hp[(s_, pw)]
        table = {u: rng.choice(pws) for u in rng.sample(users, rng.randint(1, 3))}

        junk = {"front": [], "back": []}       # lines a live edit may leave: `login:` (locked), `:digest`, a second line for a login

        def lines_of(t):
            return junk["front"] + ["%s:%s" % (u, digest(p)) for u, p in t.items()] + junk["back"]

        def first_entries(t):
            out = {}
            for ln in lines_of(t):
                lg, dg = ln.split(":", 1)
                if lg and dg and lg not in out:
                    out[lg] = dg
            return out
        f = tempfile.NamedTemporaryFile("w", suffix=".htpasswd", delete=False, encoding="utf-8")
        f.close()
        clock = [1_700_000_000_000_000_000]

        def write(t, touch=True):
            with open(f.name, "w", encoding="utf-8") as g:
                g.write("\n".join(lines_of(t)) + "\n")
            if touch:
                clock[0] += rng.choice([1, 1000, 1_000_000_000])      # even a 1 ns step must be noticed
            os.utime(f.name, ns=(clock[0], clock[0]))
        try:
            write(table)
            conf = config.load()
            conf.update({"auth": {"type": "htpasswd", "htpasswd_filename": f.name, "htpasswd_encryption": scheme,
                                  "htpasswd_cache": "True", "delay": "0", "cache_logins": "False"}}, "verif", privileged=True)
            a = auth.load(conf)
            st = os.stat(f.name)
            init = {"lines": [chars(x) for x in lines_of(table)], "size": st.st_size, "mtime": st.st_mtime_ns}
            steps = []
            results = []
            expected = []
            edits = []
            all_entries = {}
            for k in range(rng.randint(3, 10)):
                e = rng.random()
                ed = "-"
                free = [x for x in users if x not in table]
                if e < 0.35 and table:
                    u = rng.choice(list(table))
                    table[u] = rng.choice([p for p in pws if p != table[u]])
                    ed = "password of %s changed (same size)" % u
                elif e < 0.5 and table and free:
                    u = rng.choice(list(table))
                    v = rng.choice(free)
                    table = {(v if x == u else x): p for x, p in table.items()}
                    ed = "%s replaced by %s (same size)" % (u, v)
                elif e < 0.6 and len(table) > 1:
                    u = rng.choice(list(table))
                    del table[u]
                    ed = "%s removed" % u
                elif e < 0.7 and free:
                    table[rng.choice(free)] = rng.choice(pws)
                    ed = "user added"
                elif e < 0.8:
                    ed = "touched"
                elif e < 0.92:
                    # a live edit that leaves a line the re-read complains about (refused at start-up, skipped on a re-read) - the
                    # rest of the file counts as it is now; often together with a credential change elsewhere in the file
                    j = rng.random()
                    where = rng.choice(["front", "back"])
                    if j < 0.3:
                        junk[where].append("%s:" % rng.choice(users))
                        ed = "line with an empty digest added"
                    elif j < 0.45:
                        junk[where].append(":%s" % digest(rng.choice(pws)))
                        ed = "line with an empty login added"
                    elif j < 0.8:
                        junk[where].append("%s:%s" % (rng.choice(users), digest(rng.choice(pws))))
                        ed = "second line for a login added (%s)" % where
                    else:
                        junk["front"], junk["back"] = [], []
                        ed = "problematic lines removed"
                    if table and rng.random() < 0.6:
                        u = rng.choice(list(table))
                        table[u] = rng.choice([p for p in pws if p != table[u]])
                        ed += " + password of %s changed" % u
                    elif len(table) > 1 and rng.random() < 0.3:
                        u = rng.choice(list(table))
                        del table[u]
                        ed += " + %s removed" % u
                if ed != "-":
                    write(table)
                edits.append(ed)
                login = rng.choice(users)
                pw = rng.choice(pws)
                st = os.stat(f.name)
                for u, d_ in first_entries(table).items():
                    all_entries[(u, d_)] = 1
                steps.append({"lines": [chars(x) for x in lines_of(table)], "size": st.st_size, "mtime": st.st_mtime_ns,
                              "login": chars(login), "pw": chars(pw)})
                try:
                    got = a.login(login, pw)[0]
                except Exception as ex:
                    got = "EXC:" + repr(ex)
                results.append(got)
                expected.append(login if first_entries(table).get(login) == digest(pw) else "")
            rows = []
            for (u, d) in all_entries:
                for pw in pws:
                    for s_ in ("md5", "sha256", "sha512", "bcrypt"):
                        h = d.strip() if s_ != "bcrypt" else d
                        rows.append({"scheme": s_, "hash": chars(h), "pw": chars(pw), "ok": verify_real(s_, h, pw)})
            ans = ctx.driver.ask1({"m": "authgate", "op": "htpasswd_hist", "scheme": scheme, "oracle": rows, "init": init,
                                   "steps": steps}) if ctx.driver else None
            case = {"scheme": scheme, "edits_and_logins": [(ed, unchars(s_["login"]), unchars(s_["pw"])) for ed, s_ in zip(edits, steps)]}
            for k, (got, exp) in enumerate(zip(results, expected)):
                ctx.case("htcache:%s:%s" % (scheme, "ok" if exp else "reject"), sample=dict(case, step=k, result=got), key=[i, k],
                         nontrivial=edits[k] != "-")
                if got != exp:
                    ctx.violation("htpasswd_cache: login %r/%r after %r answers %r, the file as it is now says %r" % (
                        unchars(steps[k]["login"]), unchars(steps[k]["pw"]), edits[k], got, exp), dict(case, step=k), exp, got)
                    break
                if ans is not None and unchars(ans["r"][k]) != got:
                    ctx.disagree("cached htpasswd login history vs model", dict(case, step=k), got, unchars(ans["r"][k]))
                    break
        finally:
            os.unlink(f.name)


PROPFIND_CUP = ('<?xml version="1.0"?><D:propfind xmlns:D="DAV:"><D:prop><D:current-user-principal/></D:prop></D:propfind>')


MATRIX = [(b, r, x, h) for b in ("remote_user", "http_x_remote_user", "none", "htpasswd") for r in ("", "mallory")
          for x in ("", "bob") for h in ("basic", "absent")] * 2


def gate_level(ctx):
    rng = ctx.rng("gate")
    n = ctx.n(400, 8000)
    f = tempfile.NamedTemporaryFile("w", suffix=".htpasswd", delete=False, encoding="utf-8")
    lines = ["alice:secret", "bob:p:w", "carol:x", "u/x:slash", "..:dots"]
    f.write("\n".join(lines) + "\n")
    f.close()
    entries = {"alice": "secret", "bob": "p:w", "carol": "x", "u/x": "slash", "..": "dots"}
    try:
        for i in range(n):
            backend = rng.choice(["none", "denyall", "htpasswd", "htpasswd", "remote_user", "http_x_remote_user"])
            # identity-source matrix first: each back-end with its own source of identity empty / set and the other sources set
            forced = MATRIX[i] if i < len(MATRIX) else None
            if forced:
                backend = forced[0]
            lc, uc = rng.choice([(False, False), (False, False), (True, False), (False, True)])
            strip = rng.random() < 0.3
            conf = {"auth": {"type": backend, "htpasswd_filename": f.name, "htpasswd_encryption": "plain", "lc_username": str(lc),
                             "uc_username": str(uc), "strip_domain": str(strip), "cache_logins": "False"},
                    "rights": {"type": "owner_only"}}
            with App(conf) as app:
                hk = rng.choice(["absent", "basic", "basic", "basic", "malformed", "other"])
                login = rng.choice(["alice", "Alice", "ALICE", "bob", "carol@ex.org", "nobody", "u/x", "..", "alice@ex.org", ""])
                pw = rng.choice(["secret", "p:w", "x", "wrong", "", "slash", "dots"])
                if forced:
                    hk, login, pw = forced[3], "alice", "secret"
                env = {}
                if hk == "basic":
                    env["HTTP_AUTHORIZATION"] = "Basic " + base64.b64encode(("%s:%s" % (login, pw)).encode()).decode()
                elif hk == "malformed":
                    env["HTTP_AUTHORIZATION"] = rng.choice(["Basic " + base64.b64encode(b"nocolon").decode(), "Basic bm9jb2xvbg",
                                                            "Basic " + base64.b64encode("nö-colon".encode()).decode()])
                elif hk == "other":
                    env["HTTP_AUTHORIZATION"] = "Bearer abcdef"
                ru = rng.choice(["", "", "mallory", "alice", "u/x"])
                xru = rng.choice(["", "", "mallory", "bob"])
                if forced:
                    ru, xru = forced[1], forced[2]

                if ru:
                    env["REMOTE_USER"] = ru
                if xru:
                    env["HTTP_X_REMOTE_USER"] = xru
                method, path, body = rng.choice([("PROPFIND", "/", PROPFIND_CUP), ("PROPFIND", "/", PROPFIND_CUP), ("PUT", "/alice/x.ics", "junk"),
                                                 ("MKCALENDAR", "/mallory/c/", None), ("MKCALENDAR", "/alice/c%d/" % i, None),
                                                 ("GET", "/alice/", None), ("DELETE", "/bob/", None)])
                if forced:
                    method, path, body = ("PROPFIND", "/", PROPFIND_CUP) if i < len(MATRIX) // 2 else ("MKCALENDAR", "/alice/m%d/" % i, None)
                before = disk_snapshot(app.folder)
                st, hd, text = app.request(method, path, body, **env)
                after = disk_snapshot(app.folder)
                case = {"backend": backend, "lc": lc, "uc": uc, "strip_domain": strip, "header": env.get("HTTP_AUTHORIZATION"),
                        "REMOTE_USER": ru, "X-Remote-User": xru, "method": method, "path": path, "status": st}
                # independent expectation
                def mapped(l):
                    if lc:
                        l = l.lower()
                    if uc:
                        l = l.upper()
                    if strip:
                        l = l.split("@")[0]
                    return l
                from radicale import pathutils
                if backend == "remote_user":
                    elogin, epw, ext = ru, "", True
                elif backend == "http_x_remote_user":
                    elogin, epw, ext = xru, "", True
                elif hk == "basic":
                    elogin, epw, ext = login, pw, False
                elif hk == "malformed":
                    elogin = None
                    ext = False
                else:
                    elogin, epw, ext = "", "", False
                if elogin is None:
                    expect = "error500"
                    euser = None
                else:
                    if not elogin:
                        euser = ""
                    elif backend in ("none", "remote_user", "http_x_remote_user"):
                        euser = mapped(elogin)
                    elif backend == "denyall":
                        euser = ""
                    else:
                        m = mapped(elogin)
                        euser = m if entries.get(m) == epw else ""
                    if euser and not pathutils.is_safe_path_component(euser):
                        euser = ""
                    expect = "handler" if (not elogin or euser) else ("refused" if ext else "unauthorized")
                ctx.case("gate:%s:%s" % (backend, expect), sample=case, key=[i], nontrivial=expect != "handler" or bool(euser))
                # observations
                if expect == "error500" and st != 500:
                    ctx.violation("malformed Authorization header answered %d" % st, case, 500, st)
                if expect == "unauthorized" and (st != 401 or "WWW-Authenticate" not in hd):
                    ctx.violation("rejected credentials answered %d instead of 401" % st, case, 401, st)
                if expect in ("unauthorized", "error500", "refused"):
                    chg = {k for k in set(before) | set(after) if before.get(k) != after.get(k)}
                    if chg:
                        ctx.violation("a request without a valid identity changed the store: %s" % sorted(chg)[:3], case)
                if expect == "handler" and method == "PROPFIND" and st == 207:
                    served = None
                    if "<href>" in text or ":href>" in text:
                        import re
                        m = re.search(r"href>/([^<]*)/</", text)
                        import urllib.parse
                        served = urllib.parse.unquote(m.group(1)) if m else ""
                    else:
                        served = ""
                    if euser and served != euser:
                        ctx.violation("request served as %r, the back-end authenticated %r" % (served, euser), case, euser, served)
                    if not euser and served:
                        ctx.violation("request served as %r although the configured back-end was given no identity (its source is %s)" % (
                            served, {"remote_user": "REMOTE_USER", "http_x_remote_user": "X-Remote-User"}.get(backend, "the Authorization header")),
                            case, "", served)
                if expect == "handler" and not euser and st < 300 and method in ("PUT", "MKCALENDAR", "DELETE"):
                    ctx.violation("anonymous request modified data (status %d)" % st, case)
                if ctx.driver:
                    a = ctx.driver.ask1({"m": "authgate", "op": "gate", "backend": backend, "lc": lc, "uc": uc, "strip": strip,
                                         "header": hk if hk != "basic" else "basic", "login": chars(login), "pw": chars(pw),
                                         "remote_user": chars(ru), "x_remote_user": chars(xru),
                                         "lines": [chars(x) for x in lines], "scheme": "plain", "oracle": []})
                    mo = a["outcome"]
                    # observable classes: 500 / 401 / handler ran (anything else) ; refused = 403 without store change
                    obs = "error500" if st == 500 else "unauthorized" if st == 401 and expect != "handler" else None
                    if obs is None:
                        obs = mo if mo in ("handler", "refused") else "handler"
                    if mo != obs or (mo == "handler" and euser is not None and unchars(a.get("user", [])) != euser):
                        ctx.disagree("gate decision vs model", case, {"observed": obs, "expected_user": euser}, a)
    finally:
        os.unlink(f.name)


def header_level(ctx):
    """raw `Authorization` header texts through the real gate (a back-end that accepts everything records what it is asked) against
    RadicaleModel/BasicHeader.lean: which (login, password) reaches the back-end, which headers end the request with 500, which are
    no credentials at all.  Independent oracle for well-formed headers: the pair that was encoded"""
    if not ctx.driver:
        return
    rng = ctx.rng("header")
    alpha = "ABCDEFGHIJKLMNOPQRSTUVWXYZabcdefghijklmnopqrstuvwxyz0123456789+/"
    logins = ["alice", "bob", "a b", "é", "x@y.org", "", "al:ice", "日本", "a" * 40]
    pws = ["secret", "p:w", ":", "", "pä ss", "::x:", "\u20ac", " lead", "trail ", "=", "a" * 70]
    n = ctx.n(400, 12000)
    cases = []
    for i in range(n):
        k = rng.random()
        sent = None
        if k < 0.35:
            lg, pw = rng.choice(logins), rng.choice(pws)
            raw = "Basic " + base64.b64encode(("%s:%s" % (lg, pw)).encode("utf-8")).decode()
            sent = (lg, pw)
        elif k < 0.45:
            raw = rng.choice(["Basic", "Basic ", "Basic\t", "Basic  ", "BasicYWxpY2U6cHc=", "basic YWxpY2U6cHc=", "BASIC YWxpY2U6cHc=", "Bearer abc", "",
                              "Basic YWxpY2U6cHc= ", " Basic YWxpY2U6cHc=", "Basic\u00a0YWxpY2U6cHc=", "Basic YWxpY2U6cHc=\u2028", "Digest x", "Basic é",
                              "Basic YWxpY2U6cHc\u00e9="])
        elif k < 0.6:
            # latin-1 and invalid UTF-8 inside, no colon
            payload = rng.choice([b"al\xe9:pw", b"a:\xff\xfe", b"nocolon", b"", b":", b"\xc3\xa9:x", b"a:b\xc3", b"\x00:\x00"])
            raw = "Basic " + base64.b64encode(payload).decode()
        else:
            # base-64 soup: junk characters, padding in odd places, dangling groups
            good = base64.b64encode(("%s:%s" % (rng.choice(logins), rng.choice(pws))).encode("utf-8")).decode()
            chars_ = list(good)
            for _ in range(rng.randint(1, 4)):
                op = rng.random()
                pos = rng.randrange(len(chars_) + 1)
                if op < 0.35:
                    chars_.insert(pos, rng.choice(["=", "-", "_", " ", "\n", ".", "!", "=="]))
                elif op < 0.7 and chars_:
                    chars_.pop(min(pos, len(chars_) - 1))
                else:
                    chars_.insert(pos, rng.choice(alpha))
            raw = "Basic " + "".join(chars_)
        cases.append((raw, sent))
    ans = ctx.driver.ask([{"m": "authgate", "op": "basicheader", "header": chars(raw)} for raw, _ in cases])
    with App({"auth": {"type": "none"}, "rights": {"type": "authenticated"}}) as app:
        asked = []
        real_auth = app.application._auth
        orig_login = real_auth._login

        def recording(login, password):
            asked.append((login, password))
            return login
        real_auth._login = recording
        try:
            for (raw, sent), a in zip(cases, ans):
                del asked[:]
                env = {"HTTP_AUTHORIZATION": raw} if raw != "" else {}
                try:
                    st, hd, text = app.request("PROPFIND", "/", PROPFIND_CUP, **env)
                except Exception as e:
                    st = 599
                    text = repr(e)
                if st == 500:
                    got = {"kind": "error"}
                elif asked:
                    got = {"kind": "creds", "login": asked[0][0], "pw": asked[0][1]}
                else:
                    got = {"kind": "absent"}
                model = {"kind": a["kind"]}
                if a["kind"] == "creds":
                    model.update(login=unchars(a["login"]), pw=unchars(a["pw"]))
                    if model["login"] == "":
                        model = {"kind": "absent"}        # an empty login is no credentials: the back-end is not asked
                case = {"header": raw, "status": st}
                ctx.case("header:%s" % got["kind"], sample=dict(case, read_as=got), key=["header", raw], nontrivial=got["kind"] != "absent")
                if sent is not None and sent[0] and ":" not in sent[0]:
                    if got != {"kind": "creds", "login": sent[0], "pw": sent[1]}:
                        ctx.violation("the back-end was not asked about the credentials the client sent: sent %r, asked %r" % (sent, got), case)
                if got != model:
                    ctx.disagree("reading of the Authorization header vs model BasicHeader.parse", case, got, model)
        finally:
            real_auth._login = orig_login


def login_cache_staleness_level(ctx):
    """cache_logins = True in front of htpasswd: a credential the file no longer holds may be answered from the login cache only
    until the configured expiry after the BACK-END last accepted it - however often it is presented in between (the model of the
    cache itself, with all its clocks and histories, is C17's; here the oracle is the file)."""
    import radicale.auth as rauth
    from radicale import auth, config
    quiet_radicale()
    rng = ctx.rng("logincache-stale")
    real_time = rauth.time
    NS = 1_000_000_000

    class Clock:
        now = 1_700_000_000 * NS

        def time_ns(self):
            return self.now

        def time(self):
            return self.now / NS

        def sleep(self, s):
            pass
    try:
        for i in range(ctx.n(25, 800)):
            clock = Clock()
            rauth.time = clock
            expiry = rng.choice([2, 5, 15, 60])
            f = tempfile.NamedTemporaryFile("w", suffix=".htpasswd", delete=False, encoding="utf-8")
            f.write("alice:old-secret\nbobby:other\n")
            f.close()
            try:
                conf = config.load()
                conf.update({"auth": {"type": "htpasswd", "htpasswd_filename": f.name, "htpasswd_encryption": "plain", "htpasswd_cache": "False",
                                      "delay": "0", "cache_logins": "True", "cache_successful_logins_expiry": str(expiry),
                                      "cache_failed_logins_expiry": str(rng.choice([1, 90]))}}, "verif", privileged=True)
                a = auth.load(conf)
                first = a.login("alice", "old-secret")[0]
                accepted_at = clock.now
                change = rng.choice(["changed", "removed"])
                with open(f.name, "w", encoding="utf-8") as g:
                    g.write("alice:new-secret\nbobby:other\n" if change == "changed" else "bobby:other\n")
                steps = []
                for _ in range(rng.randint(3, 14)):
                    clock.now += int(rng.uniform(0.1, 0.9) * expiry * NS)
                    if rng.random() < 0.2:
                        a.login("bobby", "other")
                    got = a.login("alice", "old-secret")[0]
                    age = (clock.now - accepted_at) / NS
                    steps.append((round(age, 2), got))
                    case = {"expiry_s": expiry, "file_change": change, "presented (age since the back-end accepted it, answer)": list(steps)}
                    ctx.case("login-cache-stale:%s:%s" % (change, "within" if age < expiry + 1 else "beyond"), sample=case, key=[i, len(steps)],
                             nontrivial=age >= expiry + 1)
                    if first != "alice":
                        ctx.violation("a credential of the file was refused (%r)" % first, case)
                        break
                    # (the age is compared in whole seconds - `int(age) > expiry` - so an entry lives for less than expiry + 1 s)
                    if age >= expiry + 1 and got == "alice":
                        ctx.violation("the password the file no longer holds still logs in %.2f s after the back-end last accepted it "
                                      "(cache_successful_logins_expiry = %d s)" % (age, expiry), case, "", got)
                        break
                if change == "changed":
                    clock.now += 91 * NS
                    if a.login("alice", "new-secret")[0] != "alice":
                        ctx.violation("the new password of the file does not log in", {"expiry_s": expiry, "steps": steps})
            finally:
                os.unlink(f.name)
    finally:
        rauth.time = real_time


def run(ctx):
    ctx.extra["rule"] = ("(a) generated htpasswd files (comments, blanks, colons / non-ASCII / leading blanks in passwords, five schemes side by "
                         "side, wrong-length and near-miss hashes) x encryption in {plain,md5,sha256,sha512,bcrypt,autodetect} x cache on/off x "
                         "12 attempts each; (a2) htpasswd_cache=True: histories of 3-10 file edits (same-size password change, user swapped, "
                         "removed, added, touch only, 1 ns mtime steps) each followed by a login; (a3) cache_logins=True with a controlled clock: a password changed / removed in the file, presented again and again at intervals below the expiry, must stop logging in once the expiry has passed since the back-end accepted it; (b) requests with every Authorization shape and identity headers against five back-ends; "
                         "(c) raw Authorization header texts (well-formed pairs with colons / blanks / non-ASCII, scheme spellings, white space, Latin-1 and "
                         "invalid UTF-8 payloads, base-64 soup with junk, misplaced padding, dangling groups) through the real gate with a recording back-end; "
                         "non-trivial = an entry for the login exists / the request is not a plain anonymous one")
    ctx.trusted += ["passlib / bcrypt verifiers (the model's hash oracle is their truth table)", "hmac.compare_digest = equality",
                    "LDAP/IMAP/PAM/OAuth2/Dovecot back-ends are outside the model (only the common gate applies)"]
    htpasswd_level(ctx)
    cache_history_level(ctx)
    login_cache_staleness_level(ctx)
    gate_level(ctx)
    header_level(ctx)
