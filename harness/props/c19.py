"""C19 — hostile XML request bodies are inert   (partial).

Theorems: lean/Props/C19.lean on the skeleton regenerated from /repo (harness/skeleton.py): every handler parses
the body before the lock is taken and before any storage call; the five XML methods parse through
`_read_xml_request_body`; the only XML parser call in the request path is defusedxml's `fromstring`.
Not modelled (trusted, observed here): defusedxml/expat raise on every entity declaration before expanding or
resolving anything, in bounded time and memory.
Run time: bodies from the attack grammar (external general / parameter entities with file and network system
identifiers, nested expansion depth d x fan-out k, quadratic blow-up, DOCTYPE with internal subset, references
in element text and attribute values) x PROPFIND, PROPPATCH, REPORT, MKCOL, MKCALENDAR x charsets, under the
system-call interposer: the request fails, the store is unchanged, the decoy file is never opened and no
connection reaches the decoy listener, its content appears nowhere, time and memory stay bounded, and the body was
parsed before the handler's lock window (a marker written from a wrapper around `_read_xml_request_body`).
"""
import interposer
interposer.reexec_with_preload()

import json  # noqa: E402
import os  # noqa: E402
import resource  # noqa: E402
import socket  # noqa: E402
import tempfile  # noqa: E402
import time  # noqa: E402

import fsobs  # noqa: E402
import scenarios  # noqa: E402
from common import App, VERIF, disk_snapshot, dump_store, permissive_rights  # noqa: E402
from props.c10 import classify  # noqa: E402

PROP_FILES = ["Props/C19.lean"]
LEVEL = "proof"      # the part that is proved; the property as a whole is claimed partial (see MANIFEST note)

MARKER = "SECRET-MARKER-7f3a9"


def pre_build():
    import skeleton
    sk, do, notes = skeleton.generate(os.environ.get("VERIF_REPO", "/repo"), with_do=True)
    calls, imports = skeleton.xml_parser_calls(os.environ.get("VERIF_REPO", "/repo"))
    skeleton.write_lean(sk, os.path.join(VERIF, "lean", "Generated", "Skeleton.lean"), do, calls, imports)


def request_body(method, ref_text="", ref_attr=""):
    """a valid body for the method with `ref_text` placed in element text and `ref_attr` in an attribute value"""
    if method == "PROPFIND":
        return ('<D:propfind xmlns:D="DAV:" x="%s"><D:prop><D:displayname/><D:getetag/></D:prop><D:x>%s</D:x></D:propfind>' % (ref_attr, ref_text))
    if method == "PROPPATCH":
        return ('<D:propertyupdate xmlns:D="DAV:" x="%s"><D:set><D:prop><D:displayname>name %s</D:displayname></D:prop></D:set>'
                '</D:propertyupdate>' % (ref_attr, ref_text))
    if method == "REPORT":
        return ('<C:calendar-multiget xmlns:D="DAV:" xmlns:C="urn:ietf:params:xml:ns:caldav" x="%s"><D:prop><D:getetag/></D:prop>'
                '<D:href>/u/cal/a.ics%s</D:href></C:calendar-multiget>' % (ref_attr, ref_text))
    if method == "MKCOL":
        return ('<D:mkcol xmlns:D="DAV:" x="%s"><D:set><D:prop><D:resourcetype><D:collection/></D:resourcetype><D:displayname>n %s'
                '</D:displayname></D:prop></D:set></D:mkcol>' % (ref_attr, ref_text))
    return ('<C:mkcalendar xmlns:D="DAV:" xmlns:C="urn:ietf:params:xml:ns:caldav" x="%s"><D:set><D:prop><D:displayname>n %s'
            '</D:displayname></D:prop></D:set></C:mkcalendar>' % (ref_attr, ref_text))


def attacks(rng, decoy, port, thorough):
    """(name, class, doctype, ref_text, ref_attr); class 'entity' = declares an entity, 'dtd' = DOCTYPE without entities"""
    out = []
    file_uri = "file://" + decoy
    net_uri = "http://127.0.0.1:%d/secret" % port
    out.append(("ext-general-file", "entity", '<!DOCTYPE x [<!ENTITY e SYSTEM "%s">]>' % file_uri, "&e;", ""))
    out.append(("ext-general-net", "entity", '<!DOCTYPE x [<!ENTITY e SYSTEM "%s">]>' % net_uri, "&e;", ""))
    out.append(("ext-general-public", "entity", '<!DOCTYPE x [<!ENTITY e PUBLIC "-//x//y" "%s">]>' % file_uri, "&e;", ""))
    out.append(("ext-parameter-file", "entity", '<!DOCTYPE x [<!ENTITY %% p SYSTEM "%s"> %%p;]>' % file_uri, "", ""))
    out.append(("ext-parameter-net", "entity", '<!DOCTYPE x [<!ENTITY %% p SYSTEM "%s"> %%p;]>' % net_uri, "", ""))
    out.append(("internal-text", "entity", '<!DOCTYPE x [<!ENTITY e "expanded">]>', "&e;", ""))
    out.append(("internal-attr", "entity", '<!DOCTYPE x [<!ENTITY e "expanded">]>', "", "&e;"))
    out.append(("internal-unused", "entity", '<!DOCTYPE x [<!ENTITY e "expanded">]>', "", ""))
    out.append(("unparsed-ndata", "entity", '<!DOCTYPE x [<!NOTATION n SYSTEM "n"><!ENTITY e SYSTEM "%s" NDATA n>]>' % file_uri, "", ""))
    combos = [(2, 2), (4, 3), (8, 4), (10, 10), (12, 10)] if not thorough else [(d, k) for d in (1, 2, 4, 6, 8, 10, 12) for k in (2, 5, 10)]
    for d, k in combos:
        decl = ['<!ENTITY l0 "lol">']
        for i in range(1, d + 1):
            decl.append('<!ENTITY l%d "%s">' % (i, ("&l%d;" % (i - 1)) * k))
        out.append(("nested-d%d-k%d" % (d, k), "entity", "<!DOCTYPE x [%s]>" % "".join(decl), "&l%d;" % d, ""))
    out.append(("quadratic", "entity", '<!DOCTYPE x [<!ENTITY a "%s">]>' % ("A" * 50000), "&a;" * (2000 if thorough else 500), ""))
    out.append(("ext-subset-file", "dtd", '<!DOCTYPE x SYSTEM "%s">' % file_uri, "", ""))
    out.append(("ext-subset-net", "dtd", '<!DOCTYPE x PUBLIC "-//x//y" "%s">' % net_uri, "", ""))
    out.append(("internal-subset-no-entity", "dtd", '<!DOCTYPE x [<!ELEMENT x ANY><!ATTLIST x a CDATA "d">]>', "", ""))
    out.append(("bare-doctype", "dtd", "<!DOCTYPE x>", "", ""))
    # what may legally stand in front of the DOCTYPE or inside the first declaration: a comment or a processing instruction that
    # contains markup-looking text, an entity whose replacement text is markup (anything that cuts the document "at the first
    # element" or inspects only a prefix is fooled by these)
    out.append(("comment-with-markup-before-doctype", "entity", '<!-- from <template> --><!DOCTYPE x [<!ENTITY e "expanded">]>', "&e;", ""))
    out.append(("pi-with-markup-before-doctype", "entity", '<?client name="<x>"?><!DOCTYPE x [<!ENTITY e "expanded">]>', "&e;", ""))
    out.append(("pi-before-doctype-external", "entity", '<?client a="<b"?><!DOCTYPE x [<!ENTITY e SYSTEM "%s">]>' % file_uri, "&e;", ""))
    out.append(("entity-with-markup-value", "entity", '<!DOCTYPE x [<!ENTITY e "<b>expanded</b>">]>', "&e;", ""))
    out.append(("entity-with-markup-value-attr", "entity", '<!DOCTYPE x [<!ENTITY m "<i/>"><!ENTITY e "expanded">]>', "", "&e;"))
    # the same declarations in big bodies (a long comment after the DOCTYPE): 70 KB and 1.2 MB
    pad70, pad1m = "<!--" + "p" * 70000 + "-->", "<!--" + "p" * 1200000 + "-->"
    out.append(("internal-text-70k", "entity", '<!DOCTYPE x [<!ENTITY e "expanded">]>' + pad70, "&e;", ""))
    out.append(("ext-general-file-70k", "entity", '<!DOCTYPE x [<!ENTITY e SYSTEM "%s">]>' % file_uri + pad70, "&e;", ""))
    out.append(("internal-attr-1m", "entity", '<!DOCTYPE x [<!ENTITY e "expanded">]>' + pad1m, "", "&e;"))
    return out


def encode(doc, charset):
    if charset == "utf-8":
        return ('<?xml version="1.0" encoding="UTF-8"?>' + doc).encode("utf-8"), "application/xml; charset=utf-8"
    if charset == "utf-16":
        # (the charset of the Content-Type header is also applied to the Basic credentials; UTF-16 is announced by
        # the BOM and the XML declaration only)
        return ('<?xml version="1.0" encoding="UTF-16"?>' + doc).encode("utf-16"), "application/xml"
    if charset == "latin-1":
        return ('<?xml version="1.0" encoding="ISO-8859-1"?>' + doc).encode("latin-1"), "application/xml; charset=iso-8859-1"
    return doc.encode("utf-8"), "application/xml"


def debug_logging_level(ctx, decoy, port):
    """the same bodies with `[logging] level = debug` and `request_content_on_debug = True`: what is written to the log is
    client data too — nothing may be expanded there either, and logging must not cost unbounded time or memory"""
    import logging
    import radicale.log
    rng = ctx.rng("debuglog")

    class Tap(logging.Handler):
        def __init__(self):
            super().__init__(logging.DEBUG)
            self.size = 0
            self.counts = {}

        def emit(self, record):
            try:
                msg = record.getMessage()
            except Exception:
                return
            self.size += len(msg)
            for tok in ("expanded", "lol", MARKER):
                self.counts[tok] = self.counts.get(tok, 0) + msg.count(tok)
    tap = Tap()
    lg = radicale.log.logger
    chosen = [a for a in attacks(rng, decoy, port, False) if a[0] in ("internal-text", "internal-attr", "nested-d4-k3", "nested-d8-k4", "nested-d10-k10",
                                                                     "ext-general-file", "quadratic")]
    try:
        with App({"auth": {"type": "none"}, "rights": permissive_rights(),
                  "logging": {"level": "debug", "request_content_on_debug": "True", "response_content_on_debug": "True"}}) as app:
            scenarios.build_store(app, 0)
            lg.addHandler(tap)
            lg.setLevel(logging.DEBUG)
            n = 0
            for name, cls, doctype, ref_text, ref_attr in chosen:
                for method in ("PROPFIND", "PROPPATCH", "REPORT", "MKCOL", "MKCALENDAR"):
                    n += 1
                    path = {"MKCOL": "/u/dx%d/" % n, "MKCALENDAR": "/u/dy%d/" % n}.get(method, "/u/cal/")
                    doc = doctype + request_body(method, ref_text, ref_attr)
                    body, ctype = encode(doc, "utf-8")
                    tap.size, tap.counts = 0, {}
                    rss0 = resource.getrusage(resource.RUSAGE_SELF).ru_maxrss
                    t0 = time.time()
                    st, hd, text = app.request(method, path, body, login="u:pw", CONTENT_TYPE=ctype, HTTP_DEPTH="1")
                    dt = time.time() - t0
                    rss1 = resource.getrusage(resource.RUSAGE_SELF).ru_maxrss
                    case = {"attack": name, "method": method, "logging": "debug + request_content_on_debug", "status": st, "seconds": round(dt, 3),
                            "log_characters": tap.size, "body_characters": len(doc)}
                    ctx.case("debuglog:%s:%s" % (method, st), sample=case, key=["dbg", name, method], nontrivial=True)
                    if st < 400:
                        ctx.violation("a body declaring an entity was accepted (status %d) with debug logging on" % st, case)
                    for tok in ("expanded", "lol"):
                        if tap.counts.get(tok, 0) > 2 * doc.count(tok) + 2:
                            ctx.violation("an entity was expanded into the log: %r occurs %d times in the log lines of the request, %d times in "
                                          "the body" % (tok, tap.counts[tok], doc.count(tok)), case)
                    if tap.counts.get(MARKER, 0):
                        ctx.violation("content of the referenced file was written to the log", case)
                    if tap.size > 20 * len(doc) + 20000:
                        ctx.violation("a %d-character body produced %d characters of log" % (len(doc), tap.size), case)
                    if dt > 3.0:
                        ctx.violation("handling the body took %.1f s with debug logging on" % dt, case)
                    if rss1 - rss0 > 200 * 1024:
                        ctx.violation("handling the body grew the process by %d MB with debug logging on" % ((rss1 - rss0) // 1024), case)
    finally:
        lg.removeHandler(tap)
        lg.setLevel(logging.CRITICAL)


def charset_histories(ctx):
    """histories on one server: the same bytes under different request charsets, and the same body again.  The byte string is one
    comment plus a harmless document when read as UTF-8 / Latin-1 and a document with an entity declaration when read as UTF-7
    (what the body *is* depends on the charset parameter of the request); every request is judged on its own - what was accepted
    before under another reading, or sent before, gives no licence"""
    import itertools
    methods = ["PROPFIND", "PROPPATCH", "REPORT", "MKCOL", "MKCALENDAR"]
    ctypes = {"utf-8": "application/xml; charset=utf-8", "latin-1": "application/xml; charset=iso-8859-1", "utf-7": "application/xml; charset=utf-7",
              "none": "application/xml"}
    orders = [("utf-8", "utf-7"), ("latin-1", "utf-7", "utf-7"), ("none", "utf-8", "utf-7"), ("utf-7", "utf-8", "utf-7"), ("utf-8", "utf-8")]
    n = 0
    for method, order in itertools.product(methods, orders if ctx.tier == "thorough" else orders[:3]):
        with App({"auth": {"type": "none"}, "rights": permissive_rights()}) as app:
            scenarios.build_store(app, 0)
            # "-->" and "<!--" and "&" written in UTF-7 shifted form: plain text inside a comment / element text for any ASCII superset
            poly = ('<!-- +AC0ALQA+- <!DOCTYPE x [<!ENTITY e "expanded">]> +ADwAIQAtAC0- -->' + request_body(method, "+ACY-e;", "")).encode("ascii")
            for k, cs in enumerate(order):
                n += 1
                path = {"MKCOL": "/u/hx%d/" % n, "MKCALENDAR": "/u/hy%d/" % n}.get(method, "/u/cal/")
                reading = poly.decode("utf-7" if cs == "utf-7" else "utf-8")
                hostile = "<!ENTITY" in reading.replace(reading[reading.find("<!--"):reading.find("-->") + 3], "", 1)
                before = dump_store(app)
                st, hd, text = app.request(method, path, poly, login="u:pw", CONTENT_TYPE=ctypes[cs], HTTP_DEPTH="1")
                after = dump_store(app)
                case = {"method": method, "charsets_so_far": list(order[:k + 1]), "status": st, "hostile_in_this_reading": hostile,
                        "body": poly.decode("ascii")[:200]}
                ctx.case("history:%s:%s:%s" % (method, cs, st), sample=case, key=["hist", method, order, k], nontrivial=hostile)
                if hostile:
                    if st < 400:
                        ctx.violation("a body that declares an entity under the charset of this request was accepted (status %d) after the same bytes "
                                      "had been sent under %s" % (st, list(order[:k])), case)
                    if after != before:
                        ctx.violation("a hostile body (same bytes sent before under another charset) changed the store", case)
                    if "expanded" in text:
                        ctx.violation("an entity was expanded into the response", case)
                elif st >= 400 and st != 403:
                    ctx.disagree("the harmless reading of the polyglot body was refused", case, st, "< 400")
            if "expanded" in json.dumps(dump_store(app)):
                ctx.violation("the replacement text of an entity was stored", {"method": method, "charsets": list(order)})
    # charset labels Python has no codec for (or none at all after "charset="), on a server whose users come from a header, not from
    # Basic credentials (those are decoded with the same label and fail first): a hostile body stays a refused body
    for method, label in itertools.product(methods, ["windows-874", "unicode-1-1-utf-8", "ISO-8859-8-I", "", "x-user-defined"]):
        with App({"auth": {"type": "none"}, "rights": permissive_rights()}) as app:
            scenarios.build_store(app, 0)
            app.configure({"auth": {"type": "http_x_remote_user"}})
            n += 1
            path = {"MKCOL": "/u/lx%d/" % n, "MKCALENDAR": "/u/ly%d/" % n}.get(method, "/u/cal/")
            body = ('<!DOCTYPE x [<!ENTITY e "expanded">]>' + request_body(method, "&e;", "")).encode("utf-8")
            before = dump_store(app)
            st, hd, text = app.request(method, path, body, CONTENT_TYPE="application/xml; charset=%s" % label, HTTP_X_REMOTE_USER="u", HTTP_DEPTH="1")
            after = dump_store(app)
            case = {"method": method, "charset_label": label, "status": st, "auth": "http_x_remote_user"}
            ctx.case("unknown-charset:%s:%s" % (method, st), sample=case, key=["unknown-charset", method, label], nontrivial=True)
            if st < 400:
                ctx.violation("a body declaring an entity, sent with the charset label %r, was accepted (status %d)" % (label, st), case)
            if after != before or "expanded" in text:
                ctx.violation("a hostile body with the charset label %r changed the store or was expanded into the answer" % label, case)


def run(ctx):
    ctx.extra["rule"] = ("attack grammar (9 entity shapes + nested expansion depth<=12 x fan-out<=10 + quadratic blow-up + 4 DOCTYPE-only shapes) x "
                         "{PROPFIND, PROPPATCH, REPORT, MKCOL, MKCALENDAR} x {utf-8, utf-16, latin-1, undeclared}; non-trivial = the body "
                         "declares an entity")
    ctx.trusted += ["defusedxml + expat (raise on entity declarations before any expansion or resolution; bounded work) - observed, not modelled",
                    "harness/skeleton.py (translator)", "interposer log for file opens; a local listener for network references"]
    ctx.assumptions += ["a DOCTYPE without entity declarations is accepted by defusedxml's defaults; the check demands inertness for it, not rejection"]
    from radicale.app.base import ApplicationBase
    rng = ctx.rng("xml")
    rec = fsobs.Recorder()
    decoy_dir = tempfile.mkdtemp(prefix="rverif-decoy-")
    decoy = os.path.join(decoy_dir, "secret.txt")
    with open(decoy, "w") as f:
        f.write(MARKER + "\n")
    lst = socket.socket()
    lst.bind(("127.0.0.1", 0))
    lst.listen(8)
    lst.setblocking(False)
    port = lst.getsockname()[1]
    orig_read = ApplicationBase._read_xml_request_body

    def marked(self, environ):
        interposer.mark("xml-parse-begin")
        try:
            return orig_read(self, environ)
        finally:
            interposer.mark("xml-parse-end")
    ApplicationBase._read_xml_request_body = marked
    thorough = ctx.tier == "thorough"
    methods = ["PROPFIND", "PROPPATCH", "REPORT", "MKCOL", "MKCALENDAR"]
    charsets = ["utf-8", "utf-16", "latin-1", "none"]
    try:
        with App({"auth": {"type": "none"}, "rights": permissive_rights()}) as app:
            scenarios.build_store(app, 0)
            folder = os.path.realpath(app.folder)
            n = 0
            for name, cls, doctype, ref_text, ref_attr in attacks(rng, decoy, port, thorough):
                for method in methods:
                    cs_list = charsets if (thorough or name in ("ext-general-file", "internal-text", "nested-d4-k3", "internal-text-70k",
                                                                  "ext-general-file-70k")) else [rng.choice(charsets)]
                    for cs in cs_list:
                        n += 1
                        path = {"MKCOL": "/u/x%d/" % n, "MKCALENDAR": "/u/y%d/" % n}.get(method, "/u/cal/")
                        body, ctype = encode(doctype + request_body(method, ref_text, ref_attr), cs)
                        before = dump_store(app)
                        before_disk = disk_snapshot(app.folder, include_hidden=False)
                        rss0 = resource.getrusage(resource.RUSAGE_SELF).ru_maxrss
                        rec.start()
                        t0 = time.time()
                        try:
                            st, hd, text = app.request(method, path, body, login="u:pw", CONTENT_TYPE=ctype, HTTP_DEPTH="1")
                        finally:
                            dt = time.time() - t0
                            ent, _ = rec.stop()
                        rss1 = resource.getrusage(resource.RUSAGE_SELF).ru_maxrss
                        after = dump_store(app)
                        after_disk = disk_snapshot(app.folder, include_hidden=False)
                        case = {"attack": name, "class": cls, "method": method, "charset": cs, "status": st, "seconds": round(dt, 3),
                                "body_prefix": (doctype + request_body(method, ref_text, ref_attr))[:160]}
                        ctx.case("%s:%s:%s" % (cls, method, st), sample=case, key=[name, method, cs], nontrivial=cls == "entity")
                        if cls == "entity":
                            if st < 400:
                                ctx.violation("a body declaring an entity was accepted (status %d)" % st, case)
                            if after != before or after_disk != before_disk:
                                ctx.violation("a rejected hostile body changed the store", case)
                        if MARKER in text or any(MARKER in str(v) for v in hd.values()):
                            ctx.violation("content of the referenced file appears in the response", case)
                        if "expanded" in text and cls == "entity":
                            ctx.violation("an entity was expanded into the response", case)
                        for e in ent:
                            if e["path"].startswith(decoy_dir):
                                ctx.violation("the server touched the referenced file (%s %s)" % (e["op"], e["path"]), case)
                                break
                        try:
                            c, _ = lst.accept()
                            c.close()
                            ctx.violation("the server connected to the referenced network address", case)
                        except BlockingIOError:
                            pass
                        if dt > 3.0:
                            ctx.violation("handling the body took %.1f s" % dt, case)
                        if rss1 - rss0 > 200 * 1024:
                            ctx.violation("handling the body grew the process by %d MB" % ((rss1 - rss0) // 1024), case)
                        # parse before lock: windows opened before the parse marker = the principal look-up only
                        wins_before = 0
                        seen_parse = False
                        for e in ent:
                            if e["op"] == "MARK" and "xml-parse-begin" in e["path"]:
                                seen_parse = True
                                break
                            if e["op"] == "flock" and classify(folder, e["path"]) == "lock" and e["detail"] in ("SH", "EX"):
                                wins_before += 1
                        if not seen_parse:
                            ctx.disagree("the handler did not go through _read_xml_request_body", case, "no parse marker", "xml event")
                        elif wins_before > 1:
                            ctx.violation("the body was parsed after the handler had taken the storage lock (%d windows before the parse)" % wins_before, case)
            # stored properties must not contain anything from the referenced resources
            for dp, dn, fn in os.walk(app.folder):
                for f in fn:
                    try:
                        if MARKER.encode() in open(os.path.join(dp, f), "rb").read():
                            ctx.violation("content of the referenced file was stored in %s" % os.path.join(dp, f), {})
                    except OSError:
                        pass
        ApplicationBase._read_xml_request_body = orig_read
        debug_logging_level(ctx, decoy, port)
        charset_histories(ctx)
    finally:
        ApplicationBase._read_xml_request_body = orig_read
        rec.close()
        lst.close()
        import shutil
        shutil.rmtree(decoy_dir, ignore_errors=True)
