"""C03 — no request reads or changes anything the rights policy does not grant.

Theorems: lean/Props/C03.lean (every update needs the matching write permission; GET / PROPFIND show only what
r/w - R/W permit; a denied request is the identity; witnesses of findings F7 and F8).
Correspondence: generated policies (user x path -> permission letters) over populated stores, requests of all
methods by two users and anonymous, against the model with the same policy.  Oracles independent of the model:
(1) twin stores that differ only inside subtrees where the policy gives the user nothing must produce the
same answer; (2) a request answered 401/403 leaves the bytes of the collection tree unchanged;
(3) after a request by a user, every collection whose content changed is one the policy lets that user write.
"""
import davsim
from common import disk_snapshot
import verif_rights

PROP_FILES = ["Props/C03.lean"]
LEVEL = "proof"

PERMS = ["", "", "R", "RW", "r", "rw", "RrWw", "i", "W", "w", "RWd", "RWD", "rwo", "rwO", "Rr", "ri", "RrWwDO", "RrWwdo"]
PATHS = [[], ["u"], ["u", "c1"], ["u", "c2"], ["u", "ab"], ["u", "p"], ["u", "p", "c3"], ["u", "new"], ["v"], ["v", "c1"]]


class Quiet:
    """a context stand-in without a driver (for the twin store)"""
    driver = None


def build(sim, rng, extra_hidden=None):
    """a populated store, built with a permissive policy"""
    base = [
        {"method": "MKCALENDAR", "path": ["u", "c1"], "props": [["D:displayname", "one"]]},
        {"method": "MKCALENDAR", "path": ["u", "c2"], "props": []},
        {"method": "MKCOL", "path": ["u", "ab"], "tag": "VADDRESSBOOK", "props": []},
        {"method": "MKCOL", "path": ["u", "p"], "tag": "", "props": []},
        {"method": "MKCALENDAR", "path": ["u", "p", "c3"], "props": []},
        {"method": "MKCALENDAR", "path": ["v", "c1"], "props": []},
        {"method": "PUT", "path": ["u", "c1", "a.ics"], "body": "cal", "objs": [davsim.POOL[0]]},
        {"method": "PUT", "path": ["u", "c1", "b.ics"], "body": "cal", "objs": [davsim.POOL[4]]},
        {"method": "PUT", "path": ["u", "c2", "a.ics"], "body": "cal", "objs": [davsim.POOL[8]]},
        {"method": "PUT", "path": ["u", "ab", "k.vcf"], "body": "cards", "objs": [davsim.POOL[17]]},
        {"method": "PUT", "path": ["u", "p", "c3", "a.ics"], "body": "cal", "objs": [davsim.POOL[12]]},
        {"method": "PUT", "path": ["v", "c1", "a.ics"], "body": "cal", "objs": [davsim.POOL[2]]},
    ]
    for r in base:
        owner = r["path"][0]
        sim.step(r, owner, compare_store=False)
    for r in (extra_hidden or []):
        sim.step(r, r["path"][0], compare_store=False)


def hidden_roots(table, default, user):
    """paths (among the known ones) at and below which the policy gives `user` nothing"""
    def perms(p):
        return table.get((user, tuple(p)), default)
    roots = []
    for p in PATHS:
        below = [q for q in PATHS if q[:len(p)] == p]
        if p and all(perms(q) == "" for q in below) and default == "":
            roots.append(p)
    return roots


ITEM_PATHS = [["u", "c1", "a.ics"], ["u", "c1", "b.ics"], ["u", "c2", "a.ics"], ["u", "ab", "k.vcf"], ["v", "c1", "a.ics"]]


def gen_policy(rng):
    default = rng.choice(["", "", "", "RrWw", "r", "i", "w"])
    table = {}
    for user in ("u", "v", "", "x"):
        for p in PATHS + ([["x"], ["x", "c1"]] if user == "x" else []):
            if rng.random() < 0.55:
                table[(user, tuple(p))] = rng.choice(PERMS)
        # policies may also answer for the paths of single objects (a regex such as `public(/.*)?` does)
        for p in ITEM_PATHS:
            if rng.random() < 0.25:
                table[(user, tuple(p))] = rng.choice(["i", "ri", "r", "w", "rw", "", "RrWw"])
    return table, default


def f20_applies(table, default, user, r):
    """finding F20 is about one situation only: the parent path of the target carries the lower-case letter the method
    needs (r for reads, w for writes) — the pre-lock check passes on it, the check on the resource itself fails — so that
    an existing hidden resource answers 403 and a missing one 404.  Any other existence leak is not F20."""
    letter = "r" if r["method"] in ("GET", "PROPFIND", "MULTIGET") else "w"
    paths = [list(r["path"])] + ([list(r["dest"])] if r.get("dest") else [])
    for p in paths:
        parent = tuple(p[:-1])
        if letter in table.get((user, parent), default):
            return True
    return False


def set_policy(sim, table, default):
    sim.rights_table = dict(table)
    sim.rights_default = default
    verif_rights.TABLE.clear()
    for (u, p), perms in table.items():
        verif_rights.TABLE[(u, "/".join(p))] = perms
    verif_rights.DEFAULT[0] = default


STORAGE_VARIANTS = [None,
                    {"storage": {"use_cache_subfolder_for_history": "True"}},
                    {"storage": {"use_cache_subfolder_for_item": "True", "use_cache_subfolder_for_history": "True", "use_cache_subfolder_for_synctoken": "True"}},
                    {"storage": {"use_mtime_and_size_for_item_cache": "True", "use_cache_subfolder_for_synctoken": "True"}}]


def run_policy(ctx, rng, pid):
    permit_delete = rng.random() < 0.5
    permit_overwrite = rng.random() < 0.5
    table, default = gen_policy(rng)
    user = rng.choice(["u", "u", "v", "", "x"])        # "x" has no home collection yet: its first request may create one
    roots = hidden_roots(table, default, user)
    # the twin differs only inside hidden subtrees
    extra = []
    for root in roots:
        if root in (["u", "c1"], ["u", "c2"], ["v", "c1"], ["u", "p", "c3"]):
            extra.append({"method": "PUT", "path": root + ["hidden.ics"], "body": "cal", "objs": [davsim.POOL[14]]})
        if root in (["u", "p"], ["v"], ["u", "new"]):
            extra.append({"method": "MKCALENDAR", "path": root + ["secret"] if root != ["u", "new"] else root, "props": [["D:displayname", "SECRET"]]})
    set_policy_needed = (table, default)
    # where caches, histories and sync tokens live is part of the configuration space: relocated cache folders are keyed by the
    # collection's path - two users' collections of the same name (/u/c1, /v/c1) must not share them
    variant = STORAGE_VARIANTS[pid % len(STORAGE_VARIANTS)]
    sim = davsim.Sim(ctx, conf=variant, permit_delete=permit_delete, permit_overwrite=permit_overwrite)
    twin = davsim.Sim(Quiet(), conf=variant, permit_delete=permit_delete, permit_overwrite=permit_overwrite)
    try:
        verif_rights.TABLE.clear()
        verif_rights.DEFAULT[0] = "RrWwDO" if not permit_delete or not permit_overwrite else "RrWw"
        sim.rights_default = verif_rights.DEFAULT[0]
        sim.rights_table = {}
        build(sim, rng)
        build(twin, rng, extra)
        set_policy(sim, table, default)
        case0 = {"storage_options": (variant or {}).get("storage", {}),
                 "policy": {"%s@/%s" % (u, "/".join(p)): v for (u, p), v in table.items()}, "default": default, "user": user,
                 "permit_delete": permit_delete, "permit_overwrite": permit_overwrite, "hidden_roots": roots}
        known = []
        for i in range(rng.randint(4, 14)):
            r = davsim.gen_request(rng, sim, known)
            if extra and rng.random() < 0.3:
                # probe exactly the names that exist in the twin only (inside subtrees the policy hides from this user)
                x = rng.choice(extra)
                tp = list(x["path"])
                r = rng.choice([{"method": "GET", "path": tp, "as_collection": x["method"] != "PUT"},
                                {"method": "PROPFIND", "path": tp, "as_collection": x["method"] != "PUT", "depth1": rng.random() < 0.5},
                                {"method": "MULTIGET", "path": tp if x["method"] != "PUT" else tp[:-1], "hrefs": [tp], "book": False},
                                {"method": "MULTIGET", "path": tp, "hrefs": [tp + ["a.ics"]], "book": False},
                                {"method": "DELETE", "path": tp, "as_collection": x["method"] != "PUT"},
                                {"method": "PROPPATCH", "path": tp, "as_collection": True, "set": [["D:displayname", "x"]], "remove": [],
                                 "sets_type": False, "bad_body": False}])
            before = disk_snapshot(sim.app.folder)
            dump_before = sim.real_dump()
            obs, ans, diffs = sim.step(r, user)
            st = obs["status"]
            case = dict(case0, request=r)
            ctx.case("%s:%s:%d" % (r["method"], "anon" if not user else "user", st), sample={"request": {k: v for k, v in r.items() if k != "objs"},
                     "user": user, "status": st, "hidden_roots": roots}, key=[pid, i], nontrivial=st in (401, 403) or bool(roots))
            # oracle 2: denied -> nothing changed
            if st in (401, 403):
                after = disk_snapshot(sim.app.folder)
                chg = {k for k in set(before) | set(after) if before.get(k) != after.get(k)}
                chg.discard(user)
                if chg:
                    ctx.violation("request answered %d changed %s" % (st, sorted(chg)[:3]), case)
            # oracle 4: content of an item is shown only with r (GET) / r or w (listings) on its collection
            if st in (200, 207):
                colls = {tuple(e["path"]): e for e in dump_before}
                shown = []
                if r["method"] == "GET" and st == 200 and "etag_raw" in obs and tuple(r["path"][:-1]) in colls and \
                        colls[tuple(r["path"][:-1])]["tag"] and tuple(r["path"]) not in colls:
                    shown.append((tuple(r["path"][:-1]), "r"))
                for e_ in obs["entries"]:
                    if e_["type"] == "item" and e_.get("etag_raw"):
                        shown.append((tuple(e_["path"][:-1]), "rw"))
                for cp, letters in shown:
                    perms = table.get((user, cp), default)
                    if not any(x in perms for x in letters):
                        ctx.violation("an item of /%s is shown to %r although the policy gives %r there" % ("/".join(cp), user, perms), case)
                        break
            # oracle 3a: the home collection of a user appears on the first request only if the policy gives `W` there
            if user:
                had = any(e["path"] == [user] for e in dump_before)
                has = any(e["path"] == [user] for e in sim.real_dump())
                if has and not had and "W" not in table.get((user, (user,)), default) and r.get("path") != [user]:
                    ctx.violation("the home collection /%s was created although the policy gives %r there (no 'W')" % (
                        user, table.get((user, (user,)), default)), case)
            # oracle 3: what changed is writable for the user
            if st < 300 and user:
                dump_after = sim.real_dump()
                b = {tuple(e["path"]): e for e in dump_before}
                a = {tuple(e["path"]): e for e in dump_after}
                for p in set(a) | set(b):
                    if a.get(p) != b.get(p) and list(p) != [user]:
                        perms = table.get((user, p), default)
                        pperms = table.get((user, p[:-1]), default) if p else perms
                        tagged = (a.get(p) or b.get(p))["tag"] != ""
                        ok = ("w" in perms) if tagged else ("W" in perms or "w" in perms)
                        # creating / deleting the collection itself is governed by its own letters; members by the collection's w
                        if not ok:
                            fid = None
                            target = r["path"]
                            if list(p) != target and list(p)[:len(target)] == target:
                                fid = "F7"
                            ctx.violation("collection /%s changed although the policy gives %r to %r there" % ("/".join(p), perms, user), case,
                                          finding=fid)
            # oracle 1: twin store (an anonymous user gets 401 where a named one gets 403 NOT_ALLOWED)
            def deny(x, anonymous=not user):
                return 403 if (x == 401 and anonymous) else x
            m, path, body, env = twin.http(r)
            if r.get("if_match_present"):
                pass
            st2, hd2, text2 = twin.app.request(m, path, body, login=(user + ":pw") if user else None, **env)
            m1, path1, body1, env1 = sim.http(r)
            # re-issue read-only requests on the primary to get the body (writes were compared by status only)
            if r["method"] in ("GET", "PROPFIND", "MULTIGET"):
                st1, hd1, text1 = sim.app.request(m1, path1, body1, login=(user + ":pw") if user else None, **env1)
                if (st1, text1) != (st2, text2):
                    ctx.violation("the answer depends on data inside a subtree where the policy gives the user nothing "
                                  "(status %s vs %s)" % (st1, st2), dict(case, twin_extra=extra), finding="F20" if {deny(st1), deny(st2)} == {403, 404} and f20_applies(table, default, user, r) else None)
            elif st != st2:
                ctx.violation("the outcome of a write depends on data inside a hidden subtree (status %s vs %s)" % (st, st2),
                              dict(case, twin_extra=extra), finding="F20" if {deny(st), deny(st2)} <= {403, 404, 409, 412, 405} and st != st2 and f20_applies(table, default, user, r) else None)
            if diffs:
                # anonymous: NOT_ALLOWED is answered 401, FORBIDDEN 403 - the model says 403 for both
                if not user and len(diffs) == 1 and diffs[0].startswith("status 403 (model 403)"):
                    continue
                ctx.disagree("request under a generated policy vs model", case, diffs[:3], ans["status"] if ans else None)
                return
        report_channels(ctx, sim, twin, table, default, user, roots, case0)
    finally:
        sim.close()
        twin.close()


REPORT_QUERY = ('<?xml version="1.0"?><C:calendar-query xmlns:D="DAV:" xmlns:C="urn:ietf:params:xml:ns:caldav"><D:prop><D:getetag/><C:calendar-data/></D:prop>'
                '<C:filter><C:comp-filter name="VCALENDAR"/></C:filter></C:calendar-query>')
REPORT_ABQUERY = ('<?xml version="1.0"?><CR:addressbook-query xmlns:D="DAV:" xmlns:CR="urn:ietf:params:xml:ns:carddav"><D:prop><D:getetag/><CR:address-data/></D:prop>'
                  '<CR:filter/></CR:addressbook-query>')
REPORT_SYNC = '<?xml version="1.0"?><D:sync-collection xmlns:D="DAV:"><D:sync-token/><D:prop><D:getetag/></D:prop></D:sync-collection>'
REPORT_FREEBUSY = ('<?xml version="1.0"?><C:free-busy-query xmlns:C="urn:ietf:params:xml:ns:caldav"><C:time-range start="20000101T000000Z" end="20500101T000000Z"/>'
                   '</C:free-busy-query>')


def report_channels(ctx, sim, twin, table, default, user, roots, case0):
    """the other ways of reading a calendar or an address book - calendar-query / addressbook-query with data, sync-collection, free-busy -
    under the generated policy: object content, names and busy times of a collection appear only with `r` on it, and the answers for
    collections below a hidden root are those of the twin store (model-independent; the sequential model has no such requests)"""
    login = (user + ":pw") if user else None
    twin_dump = twin.real_dump()
    for e in sim.real_dump():
        if not e["tag"] or not e["items"]:
            continue
        cp = "/" + "/".join(e["path"]) + "/"
        perms = table.get((user, tuple(e["path"])), default)
        kinds = [("sync-collection", REPORT_SYNC)] + ([("calendar-query", REPORT_QUERY), ("free-busy-query", REPORT_FREEBUSY)] if e["tag"] == "VCALENDAR"
                                                       else [("addressbook-query", REPORT_ABQUERY)])
        for kind, body in kinds:
            st, _, text = sim.app.request("REPORT", cp, body, login=login)
            case = dict(case0, report=kind, collection=cp, permissions_on_it=perms, status=st)
            ctx.case("report-channel:%s:%s" % (kind, "r" if "r" in perms else "no-r"), sample=case, key=["report-channel", cp, kind, perms, user], nontrivial="r" not in perms)
            if "r" not in perms:
                names = [i["href"] for i in e["items"] if not i["href"].startswith("#")]
                shown = [n for n in names if n in text]
                if 200 <= st < 300 and (shown or "SUMMARY:c" in text or "FN:c" in text or "FREEBUSY" in text):
                    ctx.violation("%s on %s shows %s although the policy gives %r no `r` there (permissions %r)"
                                  % (kind, cp, shown or "object content / busy times", user or "anonymous", perms), case)
            # non-interference: the twin differs only inside subtrees hidden from this user, so wherever this collection is the same in
            # both stores (or hidden itself) the answer must be the same - names or states of hidden collections must not leak through
            # shared histories, caches or token files
            same_in_twin = next((t for t in twin_dump if t["path"] == e["path"]), None) == e
            if any(e["path"][:len(r_)] == r_ for r_ in roots) or (same_in_twin and roots):
                st2, _, text2 = twin.app.request("REPORT", cp, body, login=login)
                strip_tok = lambda t: __import__("re").sub(r"<(\w+:)?sync-token>[^<]*</(\w+:)?sync-token>", "", t)     # noqa: E731
                if (st, strip_tok(text)) != (st2, strip_tok(text2)):
                    ctx.violation("the answer of %s on %s depends on data inside a subtree where the policy gives the user nothing (status %s vs %s)"
                                  % (kind, cp, st, st2), case)


def witnesses(ctx):
    """F7, F20 and F8 on the implementation"""
    sim = davsim.Sim(ctx)
    try:
        verif_rights.TABLE.clear()
        verif_rights.DEFAULT[0] = "RrWw"
        sim.app.request("MKCOL", "/u/private/", login="u:pw")
        sim.app.request("MKCALENDAR", "/u/private/cal/", login="u:pw")
        sim.app.request("PUT", "/u/private/cal/a.ics", davsim.cal_text([davsim.POOL[0]]), login="u:pw")
        verif_rights.DEFAULT[0] = ""
        verif_rights.TABLE[("u", "u")] = "RW"
        st, _, _ = sim.app.request("DELETE", "/u/", login="u:pw")
        verif_rights.DEFAULT[0] = "RrWw"
        left = [e for e in sim.real_dump() if e["path"][:2] == ["u", "private"]]
        ctx.case("witness:F7", sample={"status": st, "left": len(left)}, key="F7", nontrivial=True)
        if st == 200 and not left:
            ctx.violation("DELETE /u/ (policy: RW on /u, nothing on /u/private/...) removed the subtree the policy hides", {"request": "DELETE /u/"},
                          finding="F7")
    finally:
        sim.close()
    # F20: with a lower-case letter on the parent path, a collection the policy hides answers 403, a missing one 404
    res = {}
    for exists in (True, False):
        sim = davsim.Sim(ctx)
        try:
            verif_rights.TABLE.clear()
            verif_rights.DEFAULT[0] = "RrWw"
            sim.app.request("MKCOL", "/u/", login="u:pw")
            if exists:
                sim.app.request("MKCALENDAR", "/u/hidden/", login="u:pw")
            verif_rights.DEFAULT[0] = ""
            verif_rights.TABLE[("u", "u")] = "Rr"
            res[exists], _, _ = sim.app.request("PROPFIND", "/u/hidden/", davsim.PROPFIND_BODY, login="u:pw", HTTP_DEPTH="0")
        finally:
            verif_rights.DEFAULT[0] = "RrWw"
            verif_rights.TABLE.clear()
            sim.close()
    ctx.case("witness:F20", sample={"hidden exists": res[True], "does not exist": res[False]}, key="F20", nontrivial=True)
    if res[True] != res[False]:
        ctx.violation("the answer depends on data inside a subtree where the policy gives the user nothing (status %s vs %s): PROPFIND on a "
                      "collection without any permission, parent has 'Rr'" % (res[True], res[False]), {"results": {str(k): v for k, v in res.items()}},
                      finding="F20" if {res[True], res[False]} == {403, 404} else None)
    sim = davsim.Sim(ctx, permit_delete=True)
    try:
        res = {}
        for letters in ("RWd", "RWD"):
            verif_rights.TABLE.clear()
            verif_rights.DEFAULT[0] = "RrWw"
            sim.app.request("MKCOL", "/u/plain%s/" % letters, login="u:pw")
            verif_rights.TABLE[("u", "u/plain%s" % letters)] = letters
            res[letters], _, _ = sim.app.request("DELETE", "/u/plain%s/" % letters, login="u:pw")
        ctx.case("witness:F8", sample=res, key="F8", nontrivial=True)
        if res == {"RWd": 200, "RWD": 403}:
            ctx.violation("permit_delete_collection=True: plain collection with 'd' is deletable, with 'D' it is refused (documentation: d forbids)",
                          {"results": res}, finding="F8")
    finally:
        sim.close()


def delete_matrix(ctx):
    """DELETE of a collection under every combination of permit_delete_collection, the letters on the collection itself and the
    letters on its parent: the decision must come from the collection's own path (the model says which), never from the parent's D / d"""
    for permit_delete in (False, True):
        for parent in ("RW", "RWD", "RWd", "RrWwDO", "RrWwdo"):
            for target in ("rw", "RW", "rwD", "RWD", "rwd", "RrWw", ""):
                for coll, tagged in ((["u", "c1"], True), (["u", "p"], False)):
                    sim = davsim.Sim(ctx, permit_delete=permit_delete)
                    try:
                        verif_rights.TABLE.clear()
                        verif_rights.DEFAULT[0] = "RrWwDO"
                        sim.rights_default = "RrWwDO"
                        sim.rights_table = {}
                        for r in ([{"method": "MKCALENDAR", "path": coll, "props": []}] if tagged else
                                  [{"method": "MKCOL", "path": coll, "tag": "", "props": []}]):
                            sim.step(r, "u")
                        table = {("u", ("u",)): parent, ("u", tuple(coll)): target}
                        set_policy(sim, table, "")
                        r = {"method": "DELETE", "path": coll, "as_collection": True}
                        obs, ans, diffs = sim.step(r, "u")
                        st = obs["status"]
                        case = {"permit_delete_collection": permit_delete, "parent /u": parent, "collection /%s" % "/".join(coll): target,
                                "tagged": tagged, "status": st}
                        ctx.case("delete-matrix:%s" % ("deleted" if st < 300 else "refused"), sample=case, key=["dm", permit_delete, parent, target, tagged],
                                 nontrivial=True)
                        own = "D" if permit_delete is False else None
                        if st < 300 and not permit_delete and "D" not in target:
                            ctx.violation("permit_delete_collection=False: the collection was deleted although the policy gives no 'D' on its own "
                                          "path (%r there, %r on the parent)" % (target, parent), case)
                        if diffs:
                            ctx.disagree("DELETE of a collection vs model", case, diffs[:2], ans["status"] if ans else None)
                    finally:
                        verif_rights.TABLE.clear()
                        verif_rights.DEFAULT[0] = "RrWw"
                        sim.close()


def run(ctx):
    ctx.extra["rule"] = ("generated policies (3 users x 10 paths -> 18 permission strings, default '' / r / RrWw) x permit_delete/overwrite x populated "
                         "stores x 4-14 requests of all methods by a user or anonymous, each also run on a twin store that differs only inside subtrees "
                         "where the policy gives that user nothing; non-trivial = the request was denied or hidden subtrees exist")
    ctx.trusted += ["harness/davsim.py, harness/plugins/verif_rights.py", "timing channels and log files are out of scope"]
    witnesses(ctx)
    delete_matrix(ctx)
    rng = ctx.rng("policy")
    for pid in range(ctx.n(60, 4000)):
        run_policy(ctx, rng, pid)
