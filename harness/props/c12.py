"""C12 — acknowledged writes are durable: data is synced before it becomes visible.

Theorems: lean/Props/C12.lean (`syncOrdered` of every storage call's trace, any names, any number of items).
Tie: the interposer's log of each modifying request on populated stores is reduced to its data projection
(operations outside the cache trees, temporary names renumbered) and must equal the model's trace; the
Lean monitor itself is evaluated on the observed projection by the driver, and an independent Python
monitor (harness/fsobs.py) is the oracle on a break.
"""
import interposer
interposer.reexec_with_preload()

import os  # noqa: E402
import shutil  # noqa: E402

import fsobs  # noqa: E402
import scenarios  # noqa: E402
from common import App, permissive_rights  # noqa: E402

PROP_FILES = ["Props/C12.lean", "Props/C12Flag.lean"]


def pre_build():
    """the writes of the storage-wide fsync flag are translated from /repo's current source on every run (harness/lockshape.py)"""
    import lockshape
    here = os.path.dirname(os.path.dirname(os.path.dirname(os.path.abspath(__file__))))
    lockshape.write_lean(lockshape.generate(os.environ.get("VERIF_REPO", "/repo")), os.path.join(here, "lean", "Generated", "LockShape.lean"))

LEVEL = "proof"


def observe(app, rec, method, path, body, env, login):
    rec.start()
    try:
        st, hd, _ = app.request(method, path, body, login=login, **env)
    finally:
        ent, muts = rec.stop()
    return st, ent, muts


def one(ctx, rec, name, kind, conf, shape, tag):
    method, path, body, env, login, calls, expect = kind
    with App(dict(conf, rights=permissive_rights())) as app:
        scenarios.build_store(app, shape)
        st, ent, muts = observe(app, rec, method, path, body, env, login)
        proj = fsobs.data_projection(ent, app.folder)
    case = {"request": name, "config": tag, "store_shape": shape}
    ctx.case("%s|%s" % (name, tag), sample=dict(case, observed=[(o["op"], "/".join(o["p"])) for o in proj][:12]),
             key=case, nontrivial=len(proj) > 0)
    if st != expect:
        ctx.violation("request %s answered %s instead of %s" % (name, st, expect), case, expect, st)
        return
    ctx.traces_validated += 1
    fsync = conf["storage"]["_filesystem_fsync"] == "True"
    # oracle on the implementation (independent of the model)
    if fsync:
        bad = fsobs.py_sync_monitor(proj)
        if bad:
            ctx.violation("sync ordering violated while serving %s: %s" % (name, bad[0]), dict(case, trace=proj), "synced before visible", bad)
    if ctx.driver:
        cic = conf["storage"].get("use_cache_subfolder_for_item") != "True"
        mops, commits, ok = scenarios.model_trace(ctx.driver, calls, fsync, cic)
        if mops != proj:
            ctx.disagree("data projection of the syscall log vs model trace", dict(case, calls=[c["call"] for c in calls]), proj, mops)
        # the Lean monitor on the observed trace
        a = ctx.driver.ask1({"m": "trace", "op": "monitor", "ops": fsobs.to_driver_ops(proj)})
        if fsync and not a["sync_ordered"] and mops == proj:
            ctx.broke("C12.syncOrdered on the observed trace of %s" % name, str(proj))
        if fsync and not a["sync_ordered"] and mops != proj and not fsobs.py_sync_monitor(proj):
            ctx.disagree("Lean monitor rejects an observed trace the independent monitor accepts", case, proj, a)


ODD_NAMES = ["old.Radicale.cache", "x.Radicale.tmp-y", "a.Radicale.lock", "b.Radicale.props", "~tilde", "c.Radicale.cache.ics"]


def odd_name_kinds():
    """names that merely *contain* the storage's reserved words (only a leading '.Radicale' is reserved): they are
    ordinary collections / items and must be written with the same care"""
    P, ch, L = scenarios.P, fsobs.chars, scenarios.LOGIN
    k = {}
    for i, nm in enumerate(ODD_NAMES):
        href = nm if nm.endswith(".ics") else nm + ".ics"
        k["put_new_oddname_%d" % i] = ("PUT", "/u/cal/" + href, scenarios.ev("odd%d" % i), {}, L,
                                       [{"call": "upload", "coll": P("u", "cal"), "href": ch(href)}], 201)
        if not nm.endswith(".ics"):
            k["mkcalendar_oddname_%d" % i] = ("MKCALENDAR", "/u/%s/" % nm, None, {}, L,
                                              [{"call": "create", "coll": P("u", nm), "props": True, "missing": 1, "exists": False}], 201)
            k["put_whole_oddname_%d" % i] = ("PUT", "/u/%s/" % nm, scenarios.cal(["w1", "w2"]), {"CONTENT_TYPE": "text/calendar"}, L,
                                             [{"call": "create", "coll": P("u", nm), "props": True,
                                               "items": [ch("w1.ics"), ch("w2.ics")], "missing": 1, "exists": False}], 201)
    return k


def whole_n(n):
    uids = ["n%03d" % i for i in range(n)]
    return ("PUT", "/u/bulk/", scenarios.cal(uids), {"CONTENT_TYPE": "text/calendar"}, scenarios.LOGIN,
            [{"call": "create", "coll": scenarios.P("u", "bulk"), "props": True,
              "items": [fsobs.chars(u + ".ics") for u in uids], "missing": 1, "exists": False}], 201)


def after_overlapping_reads_level(ctx, rec):
    """durability is a property of every acknowledged write, whatever the process served before: several threads read two calendars
    whose item caches are missing (every read rebuilds and writes cache entries, under the shared lock, at the same time); afterwards a
    PUT, a MKCALENDAR and a DELETE are observed like any other request - data synced before it becomes visible, directories synced"""
    import threading
    conf = {"storage": {"_filesystem_fsync": "True"}, "auth": {"type": "none"}}
    kinds = dict(scenarios.kinds())
    for rnd in range(ctx.n(2, 10)):
        with App(dict(conf, rights=permissive_rights())) as app:
            scenarios.build_store(app, 0)
            login = scenarios.LOGIN
            user = login.split(":")[0]
            cals = []
            for c in ("ra", "rb", "rc"):
                app.request("MKCALENDAR", "/%s/%s/" % (user, c), login=login)
                for i in range(12):
                    app.request("PUT", "/%s/%s/e%d.ics" % (user, c, i), scenarios.ev("%s%d" % (c, i)), login=login)
                cals.append("/%s/%s/" % (user, c))
            body = '<?xml version="1.0"?><D:propfind xmlns:D="DAV:"><D:prop><D:getetag/></D:prop></D:propfind>'
            for _ in range(3):
                for root, dirs, _f in os.walk(app.folder):
                    for d in list(dirs):
                        if d == ".Radicale.cache":
                            shutil.rmtree(os.path.join(root, d, "item"), ignore_errors=True)
                go = threading.Barrier(6)
                errs = []

                def reader(k):
                    try:
                        go.wait(10)
                        st = app.request("PROPFIND", cals[k % len(cals)], body, login=login, HTTP_DEPTH="1")[0]
                        if st != 207:
                            errs.append(st)
                    except Exception as e:      # noqa
                        errs.append(repr(e))
                ts = [threading.Thread(target=reader, args=(k,)) for k in range(6)]
                for t in ts:
                    t.start()
                for t in ts:
                    t.join(60)
            for name in ("put_new", "mkcalendar", "delete_item"):
                if name not in kinds:
                    continue
                method, path, pbody, env, klogin, calls, expect = kinds[name]
                st, ent, muts = observe(app, rec, method, path, pbody, env, klogin)
                proj = fsobs.data_projection(ent, app.folder)
                case = {"request": name, "after": "three rounds of six overlapping PROPFIND Depth 1 on calendars without item cache", "round": rnd,
                        "reader_problems": errs[:3]}
                ctx.case("%s|after-overlapping-reads" % name, sample=dict(case, observed=[(o["op"], "/".join(o["p"])) for o in proj][:12]),
                         key=["overlap", rnd, name], nontrivial=len(proj) > 0)
                if st != expect:
                    continue
                bad = fsobs.py_sync_monitor(proj)
                if bad:
                    ctx.violation("sync ordering violated while serving %s after overlapping reads: %s" % (name, bad[0]), dict(case, trace=proj),
                                  "synced before visible", bad)


def run(ctx):
    ctx.extra["rule"] = ("every modifying request type (20 kinds incl. whole-collection uploads of n items, nested deletes, first login) x "
                         "store shapes x fsync on/off x cache layouts; a case is the (request, configuration, shape) triple; non-trivial = "
                         "the request performed at least one data operation")
    ctx.trusted += ["interpose/interpose.c and the canonicalisation in harness/fsobs.py",
                    "kernel: fsync makes the named file / directory durable"]
    ctx.assumptions += ["cache, lock and temporary names are exempt (rebuilt or ignored)", "RENAME_EXCHANGE available (atomic branch)"]
    rec = fsobs.Recorder()
    kinds = dict(scenarios.kinds())
    kinds.update(odd_name_kinds())
    confs = [("fsync", {"storage": {"_filesystem_fsync": "True"}, "auth": {"type": "none"}})]
    if ctx.tier == "thorough":
        confs.append(("fsync+cachesub", {"storage": {"_filesystem_fsync": "True", "use_cache_subfolder_for_item": "True",
                                                     "use_cache_subfolder_for_history": "True", "use_cache_subfolder_for_synctoken": "True"},
                                         "auth": {"type": "none"}}))
        confs.append(("fsync+mtime", {"storage": {"_filesystem_fsync": "True", "use_mtime_and_size_for_item_cache": "True"},
                                      "auth": {"type": "none"}}))
    # options that route directory creation / cache placement through other code paths
    confs.append(("fsync+umask", {"storage": {"_filesystem_fsync": "True", "folder_umask": "0027"}, "auth": {"type": "none"}}))
    confs.append(("fsync+cachefolder", {"storage": {"_filesystem_fsync": "True", "filesystem_cache_folder": "@tmp"}, "auth": {"type": "none"}}))
    confs.append(("fsync+cachefolder-prefix", {"storage": {"_filesystem_fsync": "True", "filesystem_cache_folder": "@prefix", "use_cache_subfolder_for_item": "True"},
                                                "auth": {"type": "none"}}))
    confs.append(("nofsync", {"storage": {"_filesystem_fsync": "False"}, "auth": {"type": "none"}}))
    shapes = [0] if ctx.tier == "quick" else [0, 1, 2]
    try:
        for tag, conf in confs:
            for shape in shapes:
                for name, kind in kinds.items():
                    one(ctx, rec, name, kind, conf, shape, tag)
            ns = [0, 1, 5] if ctx.tier == "quick" else [0, 1, 2, 7, 20, 50]
            for n in ns:
                one(ctx, rec, "put_whole_%d_items" % n, whole_n(n), conf, 0, tag)
        after_overlapping_reads_level(ctx, rec)
    finally:
        rec.close()
