"""C07 — sync-token deltas always bring a client to the server's current state.

Theorems: lean/Props/C07.lean (convergence for every history and every outstanding token, initial sync,
PROPFIND token = REPORT token, no refusal before the maximum age unless the token folder is lost, malformed /
unknown tokens refused, a sync never changes the members).
Correspondence: random histories on two real calendars (PUT, DELETE, MOVE inside / across / onto existing names /
onto itself, modify-and-undo, delete-and-recreate, whole-collection PUT, DELETE+MKCALENDAR, deletion of the cache
folders, clock jumps across max_sync_token_age implemented by ageing the cache files) with several outstanding
tokens, on all eight combinations of the history / sync-token cache-subfolder switches; every sync-collection
REPORT and PROPFIND sync-token is compared with the model (refused or not, token identity up to renaming, set of
reported hrefs).
Oracle independent of the model: each token's holder view (href -> ETag at issue) + the reported changes (ETag or
404 per href) must equal a fresh listing; no mutation since issue => same token and empty list.
"""
import os
import re
import shutil
import xml.etree.ElementTree as ET

from common import App

PROP_FILES = ["Props/C07.lean"]
LEVEL = "proof"

MAX_AGE = 1000
NS = {"D": "DAV:"}


def ev(uid, variant):
    return ("BEGIN:VCALENDAR\r\nVERSION:2.0\r\nPRODID:-//verif//EN\r\nBEGIN:VEVENT\r\nUID:%s\r\nDTSTAMP:20240101T000000Z\r\n"
            "DTSTART:20240102T100000Z\r\nDTEND:20240102T110000Z\r\nSUMMARY:v%d\r\nEND:VEVENT\r\nEND:VCALENDAR\r\n" % (uid, variant))


def cal(objs):
    return ("BEGIN:VCALENDAR\r\nVERSION:2.0\r\nPRODID:-//verif//EN\r\n" + "".join(
        "BEGIN:VEVENT\r\nUID:%s\r\nDTSTAMP:20240101T000000Z\r\nDTSTART:20240102T100000Z\r\nDTEND:20240102T110000Z\r\nSUMMARY:v%d\r\nEND:VEVENT\r\n"
        % (u, v) for u, v in objs) + "END:VCALENDAR\r\n")


def sync_body(token):
    tok = "<D:sync-token>%s</D:sync-token>" % token if token else "<D:sync-token/>"
    return ('<?xml version="1.0"?><D:sync-collection xmlns:D="DAV:">%s<D:sync-level>1</D:sync-level><D:prop><D:getetag/></D:prop>'
            '</D:sync-collection>' % tok)


PROPFIND_TOKEN = '<?xml version="1.0"?><D:propfind xmlns:D="DAV:"><D:prop><D:sync-token/></D:prop></D:propfind>'

MALFORMED = ["garbage", "http://radicale.org/ns/sync/", "http://radicale.org/ns/sync/" + "g" * 64,
             "http://radicale.org/ns/sync/" + "a" * 63, "http://radicale.org/ns/sync/" + "A" * 64,
             "http://radicale.org/ns/sync/../" + "a" * 61, "https://radicale.org/ns/sync/" + "a" * 64]


class Coll:
    """one real collection + the op list for its model instance + the holders of tokens"""

    def __init__(self, name):
        self.name = name
        self.path = "/u/%s/" % name
        self.ops = []
        self.sync_index = 0            # number of sync ops so far
        self.tokens = []               # outstanding: {"token","k","view","dirty","wiped"}
        self.token_ids = {}            # real token string -> first-appearance number
        self.real_sync = []            # per sync op: observation


class World:
    def __init__(self, ctx, hist_sub, tok_sub, item_sub):
        self.ctx = ctx
        self.conf = {"storage": {"max_sync_token_age": str(MAX_AGE), "use_cache_subfolder_for_history": str(hist_sub),
                                 "use_cache_subfolder_for_synctoken": str(tok_sub), "use_cache_subfolder_for_item": str(item_sub)},
                     "auth": {"type": "none"}}
        self.cfg = {"max_age": MAX_AGE, "hist_sub": hist_sub, "tok_sub": tok_sub}
        self.app = App(self.conf)
        self.colls = {n: Coll(n) for n in ("c", "d")}
        self.href_ids = {}
        self.etag_ids = {}
        for c in self.colls.values():
            st, _, _ = self.app.request("MKCALENDAR", c.path, login="u:pw")
            assert st == 201, st
        self.log = []

    def close(self):
        self.app.close()

    def hid(self, href):
        return self.href_ids.setdefault(href, len(self.href_ids) + 1)

    def eid(self, etag):
        return self.etag_ids.setdefault(etag, len(self.etag_ids) + 1)

    def listing(self, c):
        """href -> etag through the storage API"""
        st = self.app.storage
        out = {}
        with st.acquire_lock("r"):
            res = list(st.discover(c.path, depth="1"))
            for child in res[1:]:
                if hasattr(child, "href") and hasattr(child, "etag") and not hasattr(child, "get_meta"):
                    out[child.href] = child.etag
        return out

    def mutated(self, c, wiped=False):
        for t in c.tokens:
            if wiped:
                t["wiped"] = True
            else:
                t["dirty"] = True

    # ---- operations --------------------------------------------------------------------------------------
    def put(self, c, href, uid, variant):
        st, hd, _ = self.app.request("PUT", c.path + href, ev(uid, variant), login="u:pw", CONTENT_TYPE="text/calendar")
        self.log.append(["PUT", c.name, href, uid, variant, st])
        if st in (201, 204):
            c.ops.append({"op": "put", "h": self.hid(href), "e": self.eid(hd["ETag"])})
            self.mutated(c)
        return st

    def delete(self, c, href):
        st, _, _ = self.app.request("DELETE", c.path + href, login="u:pw")
        self.log.append(["DELETE", c.name, href, st])
        if st in (200, 204):
            c.ops.append({"op": "del", "h": self.hid(href)})
            self.mutated(c)
        return st

    def move(self, c, href, c2, href2):
        before = self.listing(c).get(href)
        st, _, _ = self.app.request("MOVE", c.path + href, login="u:pw", HTTP_DESTINATION="http://127.0.0.1" + c2.path + href2,
                                    HTTP_OVERWRITE="T")
        self.log.append(["MOVE", c.name, href, c2.name, href2, st])
        if st in (201, 204):
            if c is c2:
                c.ops.append({"op": "move", "h": self.hid(href), "to": self.hid(href2)})
                self.mutated(c)
            else:
                # history order of storage.move: destination first, then source
                c2.ops.append({"op": "put", "h": self.hid(href2), "e": self.eid(before)})
                c.ops.append({"op": "del", "h": self.hid(href)})
                self.mutated(c)
                self.mutated(c2)
        return st

    def replace(self, c, objs):
        st, _, _ = self.app.request("PUT", c.path, cal(objs), login="u:pw", CONTENT_TYPE="text/calendar")
        self.log.append(["PUT-WHOLE", c.name, objs, st])
        if st in (201, 204):
            items = self.listing(c)
            c.ops.append({"op": "replace", "items": [[self.hid(h), self.eid(e)] for h, e in sorted(items.items())]})
            self.mutated(c, wiped=not self.cfg["tok_sub"])
            self.mutated(c)
        return st

    def recreate(self, c):
        st, _, _ = self.app.request("DELETE", c.path, login="u:pw")
        st2, _, _ = self.app.request("MKCALENDAR", c.path, login="u:pw")
        self.log.append(["RECREATE", c.name, st, st2])
        assert st == 200 and st2 == 201, (st, st2)
        c.ops.append({"op": "recreate"})
        self.mutated(c, wiped=not self.cfg["tok_sub"])
        self.mutated(c)

    def cache_dirs(self, c):
        root = self.app.folder
        return [os.path.join(root, "collection-root", "u", c.name, ".Radicale.cache"),
                os.path.join(root, "collection-cache", "u", c.name, ".Radicale.cache")]

    def wipe(self, c):
        for d in self.cache_dirs(c):
            shutil.rmtree(d, ignore_errors=True)
        self.log.append(["WIPE-CACHE", c.name])
        c.ops.append({"op": "wipe"})
        self.mutated(c, wiped=True)

    def tick(self, dt):
        """let `dt` seconds pass: every file of the history and sync-token folders gets `dt` seconds older"""
        for c in self.colls.values():
            for d in self.cache_dirs(c):
                for sub in ("history", "sync-token"):
                    p = os.path.join(d, sub)
                    if os.path.isdir(p):
                        for f in os.listdir(p):
                            fp = os.path.join(p, f)
                            s = os.stat(fp)
                            os.utime(fp, ns=(s.st_atime_ns, s.st_mtime_ns - dt * 10**9))
            c.ops.append({"op": "tick", "dt": dt})
            for t in c.tokens:
                t["age"] += dt
        self.log.append(["TICK", dt])

    def parse_report(self, c, st, text):
        if st == 403 and "valid-sync-token" in text:
            return {"refused": True}
        if st != 207:
            return {"error": st}
        root = ET.fromstring(text)
        tok = root.find("D:sync-token", NS)
        reported = {}
        for r in root.findall("D:response", NS):
            href = r.find("D:href", NS).text
            name = href.rstrip("/").rsplit("/", 1)[1]
            s = r.find("D:status", NS)
            if s is not None and " 404 " in s.text:
                reported[name] = None
            else:
                et = r.find("D:propstat/D:prop/D:getetag", NS)
                reported[name] = et.text if et is not None else "?"
        return {"refused": False, "token": tok.text if tok is not None else None, "reported": reported}

    def sync(self, c, kind, holder=None, raw=None):
        """kind: none | malformed | unknown | from (holder = entry of c.tokens)"""
        token = {"none": "", "malformed": raw, "unknown": raw, "from": holder["token"] if holder else ""}[kind]
        st, _, text = self.app.request("REPORT", c.path, sync_body(token), login="u:pw")
        obs = self.parse_report(c, st, text)
        op = {"op": "sync", "arg": kind}
        if kind == "from":
            op["k"] = holder["k"]
        c.ops.append(op)
        k = c.sync_index
        c.sync_index += 1
        if not obs.get("refused") and "token" in obs:
            obs["tid"] = c.token_ids.setdefault(obs["token"], len(c.token_ids))
        c.real_sync.append(dict(obs, kind=kind, from_k=holder["k"] if holder else None))
        self.log.append(["SYNC", c.name, kind, holder["k"] if holder else None,
                         "refused" if obs.get("refused") else sorted(obs.get("reported", {}))])
        return k, obs

    def sync_with_write_fault(self, c, cut):
        """a sync without token during which the write of the new token's state fails (ENOSPC after `cut` of the bytes); the request
        must not claim success, and what counts is every later answer (oracle and model: Sync.syncFault)"""
        import errno
        import pickle
        import types
        import radicale.storage.multifilesystem.sync as rsync
        hit = []

        def dump(obj, f, *a, **k):
            data = pickle.dumps(obj)
            f.write(data[:{"nothing": 0, "half": len(data) // 2, "all-but-one": len(data) - 1}[cut]])
            f.flush()
            hit.append(1)
            raise OSError(errno.ENOSPC, "No space left on device (injected)")
        shim = types.SimpleNamespace(**{k: getattr(pickle, k) for k in dir(pickle) if not k.startswith("__")})
        shim.dump = dump
        orig = rsync.pickle
        rsync.pickle = shim
        try:
            st, _, text = self.app.request("REPORT", c.path, sync_body(""), login="u:pw")
        finally:
            rsync.pickle = orig
        self.log.append(["SYNC-DURING-WHICH-THE-TOKEN-WRITE-FAILS", c.name, cut, st, "write reached" if hit else "token file existed"])
        # the model's step for it (theorem c07_failed_token_write): the state a sync with an unknown token leaves when the write was
        # reached, an ordinary sync when the token's file existed already
        if hit:
            c.ops.append({"op": "sync", "arg": "unknown"})
            c.real_sync.append({"refused": True, "kind": "fault", "from_k": None, "status": st})
            if st < 400:
                self.ctx.violation("a sync whose token could not be stored was answered %d" % st, {"log": self.log[-20:]})
        else:
            obs = self.parse_report(c, st, text)
            c.ops.append({"op": "sync", "arg": "none"})
            if not obs.get("refused") and "token" in obs:
                obs["tid"] = c.token_ids.setdefault(obs["token"], len(c.token_ids))
            c.real_sync.append(dict(obs, kind="none", from_k=None))
        c.sync_index += 1
        return st, bool(hit)

    def propfind_token(self, c):
        st, _, text = self.app.request("PROPFIND", c.path, PROPFIND_TOKEN, login="u:pw", HTTP_DEPTH="0")
        m = re.search(r"<(?:\w+:)?sync-token[^>]*>([^<]*)<", text)
        tok = m.group(1) if m else None
        c.ops.append({"op": "sync", "arg": "none"})
        k = c.sync_index
        c.sync_index += 1
        obs = {"refused": False, "token": tok, "reported": None, "kind": "propfind", "from_k": None}
        if tok:
            obs["tid"] = c.token_ids.setdefault(tok, len(c.token_ids))
        c.real_sync.append(obs)
        self.log.append(["PROPFIND-TOKEN", c.name])
        return k, tok


HREFS = ["a.ics", "b.ics", "c.ics", "d.ics"]
UIDS = ["u1", "u2", "u3", "u4", "u5"]


def run_history(ctx, rng, hid, hist_sub, tok_sub, item_sub, length):
    w = World(ctx, hist_sub, tok_sub, item_sub)
    conf_name = "hist_sub=%s,tok_sub=%s,item_sub=%s" % (hist_sub, tok_sub, item_sub)
    ok = True
    faults = hid % 4 == 3          # every fourth history has I/O faults while a new token is written
    forced = None
    try:
        for step in range(length):
            c = w.colls[rng.choice(["c", "c", "c", "d"])]
            other = w.colls["d" if c.name == "c" else "c"]
            k = rng.random()
            if forced is not None:
                c, k = forced, 0.99
                other = w.colls["d" if c.name == "c" else "c"]
            if faults and forced is None and 0.60 <= k < 0.66:
                w.sync_with_write_fault(c, rng.choice(["nothing", "half", "all-but-one"]))
                forced = c           # the client tries again at once
                continue
            if k < 0.22:
                w.put(c, rng.choice(HREFS), rng.choice(UIDS), rng.randint(1, 2))
            elif k < 0.32:
                w.delete(c, rng.choice(HREFS))
            elif k < 0.42:
                present = sorted(w.listing(c))
                if present:
                    src = rng.choice(present)
                    q = rng.random()
                    if q < 0.55:
                        w.move(c, src, c, rng.choice(HREFS))           # free name, existing name or itself
                    else:
                        w.move(c, src, other, rng.choice(HREFS))
            elif k < 0.47:
                w.replace(c, [(u, rng.randint(1, 2)) for u in rng.sample(UIDS, rng.randint(0, 3))])
            elif k < 0.50:
                w.recreate(c)
            elif k < 0.53:
                w.wipe(c)
            elif k < 0.63:
                w.tick(rng.choice([100, 300, 500, 1000, 1500]))
            elif k < 0.66:
                w.propfind_token(c)
            else:
                # a sync
                q = rng.random() if forced is None else 0.3
                holder = None
                if q < 0.12:
                    kind, raw = "malformed", rng.choice(MALFORMED)
                elif q < 0.17:
                    kind, raw = "unknown", "http://radicale.org/ns/sync/" + "".join(rng.choice("0123456789abcdef") for _ in range(64))
                elif q < 0.35 or not c.tokens or forced is not None:
                    kind, raw = "none", None
                else:
                    kind, raw = "from", None
                    holder = rng.choice(c.tokens)
                forced = None
                before_listing = w.listing(c)
                kidx, obs = w.sync(c, kind, holder, raw)
                case = {"config": conf_name, "log": w.log[-40:]}
                ctx.case("%s:%s:%s" % (conf_name, kind, "refused" if obs.get("refused") else "ok"),
                         sample={"config": conf_name, "kind": kind, "reported": sorted(obs.get("reported") or {}),
                                 "refused": bool(obs.get("refused"))},
                         key=[hid, step], nontrivial=kind == "from" and (holder["dirty"] or holder["age"] > 0))
                if "error" in obs:
                    ctx.violation("sync-collection REPORT answered %s" % obs["error"], case)
                    ok = False
                    break
                now_listing = w.listing(c)
                if now_listing != before_listing:
                    ctx.violation("a sync-collection REPORT changed the members of the collection", case)
                if obs.get("refused"):
                    if kind == "none":
                        ctx.violation("a sync without token was refused", case)
                    if kind == "from" and not holder["wiped"] and holder["age"] < MAX_AGE:
                        ctx.violation("token refused at age %d < max_sync_token_age=%d although the collection and its cache "
                                      "were not replaced" % (holder["age"], MAX_AGE), case)
                    if kind == "from":
                        c.tokens.remove(holder)
                    continue
                if kind in ("malformed", "unknown"):
                    ctx.violation("a %s token was accepted" % kind, dict(case, token=raw))
                    continue
                # oracle: view + delta = fresh listing
                view = dict(holder["view"]) if holder else {}
                for name, et in obs["reported"].items():
                    if et is None:
                        view.pop(name, None)
                    else:
                        view[name] = et
                if view != now_listing:
                    ctx.violation("the change list does not bring the client to the current state: client %s, server %s" % (
                        sorted(view.items()), sorted(now_listing.items())), dict(case, token_from_sync=holder["k"] if holder else None))
                    ok = False
                if holder and not holder["dirty"] and not holder["wiped"]:
                    if holder["age"] == 0:
                        if obs["token"] != holder["token"] or obs["reported"]:
                            ctx.violation("nothing happened since the token was handed out, but the answer is token %s, changes %s" % (
                                "unchanged" if obs["token"] == holder["token"] else "changed", sorted(obs["reported"])), case)
                    elif any(v is not None or n in now_listing for n, v in obs["reported"].items()):
                        # time has passed: remembered deletions may have expired (they are reported once more as 404
                        # and the token changes); anything else must not be reported
                        ctx.violation("no request changed the collection since the token was handed out, but hrefs are reported "
                                      "as changed: %s" % sorted(obs["reported"].items()), case)
                # the holder moves on to the new token, or a new client keeps it
                entry = {"token": obs["token"], "k": kidx, "view": now_listing, "dirty": False, "wiped": False, "age": 0}
                if holder and obs["token"] == holder["token"]:
                    # "Nothing changed": the token file was not touched (and may be gone)
                    entry["age"], entry["wiped"] = holder["age"], holder["wiped"]
                if holder and rng.random() < 0.6:
                    c.tokens.remove(holder)
                c.tokens.append(entry)
                if len(c.tokens) > 5:
                    c.tokens.pop(rng.randrange(len(c.tokens)))
                # PROPFIND shows the same token
                if rng.random() < 0.3:
                    kk, tok = w.propfind_token(c)
                    if tok != obs["token"]:
                        ctx.violation("PROPFIND sync-token differs from the token the REPORT just returned", case)
                    # the token age of a confirmed token is reset by the touch
            if not ok:
                break
        # correspondence with the model, per collection
        if ctx.driver:
            for c in w.colls.values():
                if not c.real_sync:
                    continue
                ans = ctx.driver.ask1(dict(w.cfg, m="sync", ops=c.ops))["r"]
                for i, (r, m) in enumerate(zip(c.real_sync, ans)):
                    rr = {"refused": bool(r.get("refused"))}
                    mm = {"refused": bool(m.get("refused"))}
                    if not rr["refused"] and not mm["refused"]:
                        rr["tid"] = r.get("tid")
                        mm["tid"] = m.get("tid")
                        if r.get("reported") is not None:
                            rr["changes"] = sorted(w.hid(h) for h in r["reported"])
                            mm["changes"] = sorted(m["changes"])
                    if rr != mm:
                        ctx.disagree("sync history vs model (%s, collection %s, sync #%d)" % (conf_name, c.name, i),
                                     {"config": conf_name, "collection": c.name, "ops": c.ops, "log": w.log[-60:], "href_ids": w.href_ids}, rr, mm)
                        break
    finally:
        w.close()


def run(ctx):
    ctx.extra["rule"] = ("random histories of 10-45 steps on two calendars (PUT 4 hrefs x 5 UIDs x 2 variants, DELETE, MOVE inside / across / "
                         "onto existing / onto itself, whole-collection PUT, DELETE+MKCALENDAR, cache folder deletion, clock jumps "
                         "100..1500 s with max_sync_token_age=1000, PROPFIND sync-token, sync with no / malformed / unknown / any of up to 5 "
                         "outstanding tokens) x the 8 cache-subfolder layouts; a case = one sync; non-trivial = a token from an earlier point "
                         "after a mutation or clock jump")
    ctx.trusted += ["harness/props/c07.py (requests, ageing of cache files as the clock, listing through the storage API)",
                    "SHA-256 taken as injective (ETags, history tags, token names compared up to renaming)",
                    "os.urandom seeds are fresh", "pickle round trip of token and history files"]
    ctx.assumptions += ["one collection's sync state is independent of other collections (two collections are run side by side)",
                        "directory enumeration order is stable while the directory does not change",
                        "sequential requests (C09 for concurrency)"]
    rng = ctx.rng("hist")
    n = ctx.n(120, 4000)
    for h in range(n):
        hist_sub, tok_sub, item_sub = rng.random() < 0.5, rng.random() < 0.5, rng.random() < 0.3
        run_history(ctx, rng, h, hist_sub, tok_sub, item_sub, rng.randint(10, 45))
