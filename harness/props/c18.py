"""C18 — every name the server hands out or accepts round-trips through URL encoding.

Theorems: lean/Props/C18.lean.  Correspondence:
 (a) function level: urllib.parse.quote/unquote, posixpath.normpath, pathutils.sanitize_path,
     xmlutils.make_href and the real request-line decoder (server.RequestHandler.get_environ) against the
     driver on generated strings (valid names, malformed %-sequences, invalid UTF-8, dot/slash soup);
 (b) end to end: collections, items and users with generated names under generated base prefixes
     (SCRIPT_NAME / X-Script-Name / configured script_name behind a reverse proxy); every href the server
     emits must equal the model's and, sent back through GET / multiget / MOVE, reach the resource.
The oracle of (b) is independent of the Lean model.
"""
import io
import posixpath
import urllib.parse
from xml.sax.saxutils import escape as xml_escape

from common import App, parse_multistatus

PROP_FILES = ["Props/C18.lean"]
LEVEL = "proof"

SPECIAL = list(" %+?#;&:@'\"<>\\=,!$()*[]{}|^`~") + list("éüß€日本😀 ́")
PLAIN = list("abcxyzABC019-_.")


def chars(s):
    return [ord(c) for c in s]


def unchars(a):
    return "".join(chr(x) for x in a)


MOJIBAKE = ["Jos\u00c3\u00a9", "\u00c2\u00b0C", "\u00c3\u00bc", "na\u00c3\u00afve \u00c2\u00a7"]     # Latin-1 characters that, taken as bytes, are valid UTF-8


def gen_name(rng, allow_colon=True, maxlen=8):
    if rng.random() < 0.06:
        return rng.choice(MOJIBAKE)
    while True:
        n = rng.randint(1, maxlen)
        s = "".join(rng.choice(SPECIAL) if rng.random() < 0.45 else rng.choice(PLAIN) for _ in range(n))
        if not allow_colon:
            s = s.replace(":", "_")
        if s.startswith(".") or s.endswith("~") or s in (".", "..") or "/" in s:
            continue
        # XML 1.0 cannot carry these; HTTP headers cannot carry control characters
        if any(ord(c) < 32 for c in s):
            continue
        return s


def gen_soup(rng):
    """strings for the function-level comparison"""
    kind = rng.randrange(6)
    if kind == 0:    # path-like: dots, empty segments, traversal
        segs = [rng.choice(["", ".", "..", "a", "b c", "é", "...", ".x", "x~", "%2e%2e", "a%2Fb", "\\", "..a"])
                for _ in range(rng.randint(0, 7))]
        return rng.choice(["", "/", "//", "///"]) + "/".join(segs) + rng.choice(["", "/", "//"])
    if kind == 1:    # percent soup incl. malformed and invalid UTF-8
        parts = []
        for _ in range(rng.randint(1, 8)):
            parts.append(rng.choice(["%", "%2", "%zz", "%41", "%e9", "%C3%A9", "%C3", "%E2%82%AC", "%E2%82", "%F0%9F%98%80",
                                     "%F0%9F", "%ff", "%80", "%ED%A0%80", "%C0%AF", "%2F", "%2f", "%25", "%3F", "a", "/", "é", "€", "+", "?"]))
        return "".join(parts)
    if kind == 2:
        return gen_name(rng, maxlen=12)
    if kind == 3:
        return "/" + "/".join(gen_name(rng) for _ in range(rng.randint(1, 4))) + rng.choice(["", "/"])
    if kind == 4:    # random bytes percent-encoded
        return "".join("%%%02X" % rng.randrange(256) for _ in range(rng.randint(1, 6)))
    return "".join(rng.choice(SPECIAL + PLAIN + ["/", "%", "."]) for _ in range(rng.randint(0, 12)))


class _FakeServer:
    base_environ = {"SERVER_NAME": "127.0.0.1", "GATEWAY_INTERFACE": "CGI/1.1", "SERVER_PORT": "80",
                    "REMOTE_HOST": "", "CONTENT_LENGTH": "", "SCRIPT_NAME": ""}

    def get_app(self):
        return None


def real_request_line_decode(target):
    """PATH_INFO as the real radicale.server.RequestHandler computes it from a request target."""
    import email.message
    import socket
    from radicale import server
    h = object.__new__(server.RequestHandler)
    h.server = _FakeServer()
    h.client_address = ("127.0.0.1", 1)
    h.request_version = "HTTP/1.1"
    h.command = "GET"
    h.path = target
    h.headers = email.message.Message()
    h.connection = socket.socket()
    h.request = h.connection
    try:
        env = h.get_environ()
    finally:
        h.connection.close()
    return env["PATH_INFO"]


EVENT = """BEGIN:VCALENDAR\r\nVERSION:2.0\r\nPRODID:-//verif//EN\r\nBEGIN:VEVENT\r\nUID:%s\r\nDTSTAMP:20240101T000000Z\r\nDTSTART:20240101T100000Z\r\nDTEND:20240101T110000Z\r\nSUMMARY:s\r\nEND:VEVENT\r\nEND:VCALENDAR\r\n"""

PROPFIND_PRINCIPAL = """<?xml version="1.0"?><D:propfind xmlns:D="DAV:" xmlns:C="urn:ietf:params:xml:ns:caldav" xmlns:CR="urn:ietf:params:xml:ns:carddav"><D:prop><D:current-user-principal/><D:principal-URL/><C:calendar-home-set/><CR:addressbook-home-set/><C:calendar-user-address-set/><D:owner/></D:prop></D:propfind>"""


def function_level(ctx):
    from radicale import pathutils, xmlutils
    rng = ctx.rng("fn")
    n = ctx.n(3000, 120000)
    cases = [gen_soup(rng) for _ in range(n)]
    if ctx.driver:
        reqs = []
        for s in cases:
            for op in ("quote", "unquote", "sanitize", "normpath", "reqline"):
                reqs.append({"m": "quote", "op": op, "s": chars(s)})
        ans = ctx.driver.ask(reqs)
    k = 0
    for s in cases:
        impl = {
            "quote": urllib.parse.quote(s),
            "unquote": urllib.parse.unquote(s),
            "sanitize": pathutils.sanitize_path(s),
            "normpath": posixpath.normpath(s),
            "reqline": pathutils.sanitize_path(real_request_line_decode(s)),
        }
        stratum = "fn:" + ("pct" if "%" in s else "dots" if ".." in s or "//" in s else "plain")
        ctx.case(stratum, sample={"s": s, "quote": impl["quote"], "sanitize": impl["sanitize"]}, key=s,
                 nontrivial=(impl["quote"] != s or impl["unquote"] != s or impl["sanitize"] != s))
        # property oracle (model independent): round trip
        if urllib.parse.unquote(urllib.parse.quote(s)) != s:
            ctx.violation("unquote(quote(s)) != s", {"s": s})
        if ctx.driver:
            for op in ("quote", "unquote", "sanitize", "normpath", "reqline"):
                m = unchars(ans[k]["r"])
                k += 1
                if m != impl[op]:
                    ctx.disagree("python %s vs model" % op, {"s": s}, impl[op], m)


def gen_url(rng):
    """URL-like strings for the splitting step: absolute http(s) URLs, scheme-less and odd schemes, authority-only forms, leading
    blanks, tabs / line ends inside, parameters, query and fragment parts"""
    body = gen_soup(rng)
    if not body.startswith("/") and rng.random() < 0.7:
        body = "/" + body
    tail = rng.choice(["", "", "", ";p", ";a=b;c", "?q=1", "#frag", "?q;x#f", ";x/y;z"])
    head = rng.choice(["http://127.0.0.1", "http://127.0.0.1:5232", "https://example.org", "HTTP://h", "", "", "//host", "//", "x-y.z+1://h", "ftp://h",
                       "mailto:", "urn:", "1a://h", "é://h", " http://h", "\thttp://h", "ht\ntp://h", "http:/h", "http:", ":", "a.b:c", "http://u:p@h:1"])
    return head + body + tail


def url_split_level(ctx):
    """the model's `urlsplit(...).path` (what MOVE and multiget cut a client URL down to) against Python's, and `urlparse(...).path`
    (used before fix F28) against the model's account of it"""
    if not ctx.driver:
        return
    rng = ctx.rng("urls")
    cases = [gen_url(rng) for _ in range(ctx.n(2500, 60000))]
    ans = ctx.driver.ask([{"m": "quote", "op": "urlpath", "s": chars(u)} for u in cases])
    for u, a in zip(cases, ans):
        try:
            sp, pp = urllib.parse.urlsplit(u).path, urllib.parse.urlparse(u).path
        except ValueError:
            ctx.case("url:valueerror", sample={"url": u}, key=["url", u], nontrivial=False)
            continue
        ctx.case("url:%s" % ("params" if sp != pp else "abs" if "://" in u else "other"), sample={"url": u, "path": sp}, key=["url", u],
                 nontrivial=sp != u)
        if unchars(a["split"]) != sp:
            ctx.disagree("urlsplit(url).path vs model urlsplitPath", {"url": u}, sp, unchars(a["split"]))
        if unchars(a["parse"]) != pp:
            ctx.disagree("urlparse(url).path vs model urlparsePath", {"url": u}, pp, unchars(a["parse"]))


def move_authority_level(ctx):
    """is the Destination of a MOVE on this server?  Header combinations a direct client or a reverse proxy produces (Host with and without
    port, X-Forwarded-Host / -Proto / -Port present or not) x Destination authorities (the same host, another one, explicit default and
    other ports, other scheme): a Destination on the authority the client addressed is carried out, another one is answered 502, none
    fails with 500; against RadicaleModel/Netloc.lean"""
    from common import App
    rng = ctx.rng("authority")
    ev = ("BEGIN:VCALENDAR\r\nVERSION:2.0\r\nPRODID:x\r\nBEGIN:VEVENT\r\nUID:%s\r\nDTSTAMP:20240101T000000Z\r\nDTSTART:20240102T100000Z\r\n"
          "SUMMARY:s\r\nEND:VEVENT\r\nEND:VCALENDAR\r\n")
    hosts = ["cal.example.org", "127.0.0.1", "localhost", "a-b.c", "Cal.Example.ORG", "LOCALHOST", "[::1]", "[2001:db8::1]"]
    with App({"auth": {"type": "none"}}) as app:
        app.request("MKCALENDAR", "/u/c/", login="u:pw")
        for i in range(ctx.n(120, 2500)):
            h = rng.choice(hosts)
            proxied = rng.random() < 0.5
            scheme = rng.choice(["http", "https"])
            default = "443" if scheme == "https" else "80"
            env = {}
            if proxied:
                env["HTTP_X_FORWARDED_HOST"] = h if rng.random() < 0.85 else h + ":8443"
                if rng.random() < 0.7:
                    env["HTTP_X_FORWARDED_PROTO"] = scheme
                else:
                    scheme = "http"
                    default = "80"
                pk = rng.random()
                if pk < 0.3:
                    env["HTTP_X_FORWARDED_PORT"] = default
                elif pk < 0.4:
                    env["HTTP_X_FORWARDED_PORT"] = "8443"
                elif pk < 0.45:
                    env["HTTP_X_FORWARDED_PORT"] = ""
                env["HTTP_HOST"] = "backend.internal:5232"
                env["wsgi.url_scheme"] = "http"
                env["SERVER_PORT"] = "5232"
                addressed_port = env.get("HTTP_X_FORWARDED_PORT") or default
                if env["HTTP_X_FORWARDED_HOST"].endswith(":8443"):
                    addressed_port = "8443"
            else:
                port = rng.choice([default, default, "5232"])
                env["HTTP_HOST"] = h if (port == default and rng.random() < 0.7) else "%s:%s" % (h, port)
                env["wsgi.url_scheme"] = scheme
                env["SERVER_PORT"] = port
                env["SERVER_NAME"] = "srv.internal"
                addressed_port = port
            # the Destination: on the authority the client addressed (with or without the port spelled out), or elsewhere
            dk = rng.random()
            if dk < 0.6:
                same = True
                authority = h if (addressed_port == default and rng.random() < 0.6) else "%s:%s" % (h, addressed_port)
                dscheme = scheme
            elif dk < 0.8:
                same = False
                authority = rng.choice(["other.example", h + ".evil.example", h + ":1", "x" + h])
                dscheme = scheme
            else:
                same = None          # another scheme or port spelling: decided by the model only
                authority = rng.choice([h, h + ":80", h + ":443", h + ":"])
                dscheme = rng.choice(["http", "https", "HTTP"])
            dest = "%s://%s/u/c/b%d.ics" % (dscheme, authority, i)
            st0, _, _ = app.request("PUT", "/u/c/a%d.ics" % i, ev % ("m%d" % i), login="u:pw")
            st, _, _ = app.request("MOVE", "/u/c/a%d.ics" % i, login="u:pw", HTTP_DESTINATION=dest, **env)
            got = "error" if st >= 500 and st != 502 else "remote" if st == 502 else "local"
            case = {"headers": {k: v for k, v in env.items()}, "destination": dest, "status": st}
            ctx.case("authority:%s:%s" % ("proxy" if proxied else "direct", got), sample=case, key=["authority", i], nontrivial=got != "local" or proxied)
            if same is True and got != "local":
                ctx.violation("a MOVE to a Destination on the authority the client addressed (%s://%s) was answered %d" % (scheme, authority, st), case)
            if same is False and got != "remote":
                ctx.violation("a MOVE to a Destination on another server (%s) was answered %d instead of 502" % (authority, st), case)
            if ctx.driver and "[" not in h:          # (IPv6 literals: oracle only, the model has no bracketed authorities)
                a = ctx.driver.ask1({"m": "quote", "op": "moveauth", "fixed": True, "xf_host": chars(env.get("HTTP_X_FORWARDED_HOST", "")),
                                     "xf_proto": chars(env.get("HTTP_X_FORWARDED_PROTO", "")),
                                     "xf_port": chars(env["HTTP_X_FORWARDED_PORT"]) if "HTTP_X_FORWARDED_PORT" in env else None,
                                     "host": chars(env.get("HTTP_HOST", "")), "server_name": chars(env.get("SERVER_NAME", "127.0.0.1")),
                                     "scheme": chars(env.get("wsgi.url_scheme", "http")), "port": chars(env.get("SERVER_PORT", "80")), "dest": chars(dest)})
                if a["r"] != got:
                    ctx.disagree("MOVE Destination authority: local / remote / error vs model Netloc.verdict", case, got, a["r"])


def external_wsgi_level(ctx):
    """the same round trip behind an external WSGI server that follows PEP 3333: there the request path arrives as the percent-decoded
    *bytes* read as Latin-1 (the built-in server hands over the UTF-8 decoding itself).  ASCII names must round-trip; for non-ASCII
    names the application takes the Latin-1 reading for the name (finding F32): reported as a known finding, anything else as a violation"""
    from common import App
    rng = ctx.rng("wsgi")
    ev = ("BEGIN:VCALENDAR\r\nVERSION:2.0\r\nPRODID:x\r\nBEGIN:VEVENT\r\nUID:%s\r\nDTSTAMP:20240101T000000Z\r\nDTSTART:20240102T100000Z\r\n"
          "SUMMARY:s\r\nEND:VEVENT\r\nEND:VCALENDAR\r\n")

    def wire(url_path):
        # what a PEP 3333 server puts into PATH_INFO for this request target
        return urllib.parse.unquote_to_bytes(url_path.split("?", 1)[0]).decode("latin-1")
    names = ["plain.ics", "a b.ics", "100%.ics", "a+b;c.ics", "caf\u00e9.ics", "\u65e5\u672c.ics", "na\u00efve \U0001f600.ics"]
    for i in range(ctx.n(8, 60)):
        name = names[i % len(names)] if i < len(names) else gen_name(rng) + ".ics"
        if any(ord(c) < 32 for c in name) or "/" in name:
            continue
        ascii_only = all(ord(c) < 128 for c in name)
        with App({"auth": {"type": "none"}}) as app:
            L = "u:pw"
            app.request("MKCALENDAR", "/u/c/", login=L)
            target = "/u/c/" + urllib.parse.quote(name)
            st, _, _ = app.request("PUT", wire(target), ev % ("w%d" % i), login=L)
            st1, _, text = app.request("PROPFIND", "/u/c/", None, login=L, HTTP_DEPTH="1")
            hrefs = [h for h in (parse_multistatus(text)[1] if st1 == 207 else []) if h.rstrip("/") != "/u/c"]
            st2 = app.request("GET", wire(hrefs[0]), login=L)[0] if hrefs else None
            st3 = app.request("GET", wire(target), login=L)[0]
        case = {"name": name, "request_target": target, "PATH_INFO": wire(target), "put": st, "emitted": hrefs, "get_by_emitted_href": st2, "get_by_same_target": st3}
        ctx.case("external-wsgi:%s" % ("ascii" if ascii_only else "non-ascii"), sample=case, key=["wsgi", name], nontrivial=not ascii_only)
        ok = st == 201 and st2 == 200 and st3 == 200 and hrefs == [target]
        if not ok:
            ctx.violation("behind a PEP 3333 WSGI server the href emitted for %r does not lead back to the resource (PUT %s, emitted %s, GET by it %s)"
                          % (name, st, hrefs, st2), case, "201, the request target as href, 200", [st, hrefs, st2],
                          finding=None if ascii_only else "F32")


MODES = ["none", "script_name", "x_script_name", "config_proxy"]


def end_to_end(ctx):
    rng = ctx.rng("e2e")
    n = ctx.n(60, 1500)
    for i in range(n):
        mode = MODES[i % len(MODES)]
        prefix = "" if mode == "none" else "/" + "/".join(gen_name(rng) for _ in range(rng.randint(1, 2)))
        one_case(ctx, rng, mode, prefix, i)


def one_case(ctx, rng, mode, prefix, idx):
    user = gen_name(rng, allow_colon=False)
    coll = gen_name(rng)
    item = gen_name(rng)
    new = gen_name(rng)
    while new == item:
        new = gen_name(rng)
    case = {"mode": mode, "prefix": prefix, "user": user, "coll": coll, "item": item, "new": new}
    conf = {"auth": {"type": "none"}, "rights": {"type": "owner_only"}}
    if mode == "config_proxy":
        conf["server"] = {"script_name": prefix}
    if idx % 4 == 3:
        # the charset of request bodies and of stored files has no say in how URLs are coded (always UTF-8 percent-encoding)
        conf["encoding"] = {"request": rng.choice(["iso-8859-1", "cp1252", "utf-8"]), "stock": rng.choice(["utf-8", "iso-8859-1"])}
        case["encoding"] = dict(conf["encoding"])
        # (the Basic credentials are decoded with the request charset as well: keep the login ASCII, so that it is the
        #  same user whatever that charset is — the names in URLs stay arbitrary)
        for _ in range(50):
            if user.isascii():
                break
            user = gen_name(rng, allow_colon=False)
        if not user.isascii():
            user = "u"
        case["user"] = user
    with App(conf) as app:
        login = user + ":pw"

        def req(method, path, data=None, **kw):
            # `path` is the decoded path relative to the prefix (what a front end passes on)
            if mode == "script_name":
                kw["SCRIPT_NAME"] = prefix
            elif mode == "x_script_name":
                kw["HTTP_X_SCRIPT_NAME"] = prefix
            elif mode == "config_proxy":
                kw["HTTP_X_FORWARDED_FOR"] = "10.0.0.1"
                path = prefix + path
            return app.request(method, path, data, login=login, **kw)

        def via_href(href):
            """what a client sending `href` back makes the server see, relative to the prefix"""
            decoded = real_request_line_decode(href)
            if mode == "config_proxy":
                return decoded[len(prefix):] if decoded.startswith(prefix) else decoded
            if not decoded.startswith(prefix):
                return None
            return decoded[len(prefix):]

        cpath = "/%s/%s/" % (user, coll)
        ipath = cpath + item
        npath = cpath + new
        uid = "uid-%d" % idx
        st, _, _ = req("MKCALENDAR", cpath)
        if st != 201:
            ctx.violation("MKCALENDAR of a storage-safe name refused", case, 201, st)
            return
        st, _, _ = req("PUT", ipath, EVENT % uid, CONTENT_TYPE="text/calendar")
        if st != 201:
            ctx.violation("PUT of a storage-safe name refused", case, 201, st)
            return
        st, _, body = req("PROPFIND", cpath, HTTP_DEPTH="1")
        if st != 207:
            ctx.violation("PROPFIND failed", case, 207, st)
            return
        _, hrefs, _ = parse_multistatus(body)
        needs = any(urllib.parse.quote(x) != x for x in (prefix, user, coll, item))
        ctx.case("e2e:" + mode, sample=dict(case, hrefs=hrefs), key=case, nontrivial=needs)
        # model prediction of the emitted hrefs
        if ctx.driver:
            exp = [unchars(a["r"]) for a in ctx.driver.ask([
                {"m": "quote", "op": "href", "prefix": chars(prefix), "s": chars(cpath)},
                {"m": "quote", "op": "href", "prefix": chars(prefix), "s": chars(ipath)}])]
            if sorted(exp) != sorted(hrefs):
                ctx.disagree("emitted hrefs (PROPFIND depth 1) vs model make_href", case, hrefs, exp)
        # oracle: each emitted href is a proper URL path and addresses the resource it described
        for h in hrefs:
            if not all(c.isascii() and (c.isalnum() or c in "-._~/%") for c in h):
                ctx.violation("emitted href is not a percent-encoded URL path", dict(case, href=h))
            p = via_href(h)
            if p is None:
                ctx.violation("emitted href does not start with the base prefix after decoding", dict(case, href=h))
                continue
            if p.endswith("/"):
                st2, _, b2 = req("PROPFIND", p, HTTP_DEPTH="0")
                ok = st2 == 207 and p == cpath
            else:
                st2, _, b2 = req("GET", p)
                ok = st2 == 200 and ("UID:" + uid) in b2
            if not ok:
                ctx.violation("emitted href sent back does not reach the resource it described",
                              dict(case, href=h, decoded=p), "2xx on the resource", st2)
        ihref = [h for h in hrefs if not h.endswith("/")]
        # multiget with the emitted href
        if ihref:
            bodyx = ('<?xml version="1.0"?><C:calendar-multiget xmlns:D="DAV:" xmlns:C="urn:ietf:params:xml:ns:caldav">'
                     '<D:prop><D:getetag/><C:calendar-data/></D:prop><D:href>%s</D:href></C:calendar-multiget>' % xml_escape(ihref[0]))
            st3, _, b3 = req("REPORT", cpath, bodyx)
            good = False
            if st3 == 207:
                ms, order, _ = parse_multistatus(b3)
                r = ms.get(ihref[0])
                good = isinstance(r, dict) and "C:calendar-data" in r and r["C:calendar-data"][0] == 200 and \
                    ("UID:" + uid) in (r["C:calendar-data"][1].text or "")
            if not good:
                ctx.violation("multiget by the emitted href does not return the item", dict(case, href=ihref[0]), "200 + data", st3)
            if ctx.driver:
                m = unchars(ctx.driver.ask1({"m": "quote", "op": "multiget", "s": chars(ihref[0])})["r"])
                if m != prefix + ipath:
                    ctx.disagree("model multiget decoder on emitted href", case, prefix + ipath, m)
        # MOVE by encoded Destination, then fetch by the decoded request path
        # (a client may leave the sub-delimiters and ":" "@" of RFC 3986 unencoded in a path: "+" is a plus there, not a blank)
        dest = "http://127.0.0.1" + urllib.parse.quote(prefix + npath, safe=rng.choice(["/", "/", "/+,;=!$&'()*@:", "/+"]))
        st4, _, _ = req("MOVE", ipath, HTTP_DESTINATION=dest)
        st5, _, b5 = req("GET", npath)
        moved_ok = st4 == 201 and st5 == 200 and ("UID:" + uid) in b5
        if not moved_ok:
            fid = None
            if urllib.parse.quote(new) != new and st4 == 201 and st5 == 404:
                fid = "F12"
            ctx.violation("MOVE to an encoded Destination does not reach the decoded name (GET of the new name: %s)" % st5,
                          dict(case, destination=dest), "201 then GET 200", [st4, st5], finding=fid)
        if ctx.driver:
            m = unchars(ctx.driver.ask1({"m": "quote", "op": "desturl", "s": chars(dest)})["r"])
            if m != prefix + npath:
                ctx.disagree("model destination decoder (split, unquote, sanitize) on the Destination URL", dict(case, destination=dest), prefix + npath, m)
        # multiget by a href the *client* wrote (absolute or path only, sub-delimiters not encoded) for the moved item
        if moved_ok:
            chref = rng.choice(["", "http://127.0.0.1"]) + urllib.parse.quote(prefix + npath, safe=rng.choice(["/", "/+,;=!$&'()*@:"]))
            bodyc = ('<?xml version="1.0"?><C:calendar-multiget xmlns:D="DAV:" xmlns:C="urn:ietf:params:xml:ns:caldav">'
                     '<D:prop><D:getetag/><C:calendar-data/></D:prop><D:href>%s</D:href></C:calendar-multiget>' % xml_escape(chref))
            st8, _, b8 = req("REPORT", cpath, bodyc)
            good8 = False
            if st8 == 207:
                ms8, _, _ = parse_multistatus(b8)
                good8 = any(isinstance(r, dict) and "C:calendar-data" in r and r["C:calendar-data"][0] == 200 and
                            ("UID:" + uid) in (r["C:calendar-data"][1].text or "") for r in ms8.values())
            if not good8:
                ctx.violation("multiget by a client-written href does not return the item it names", dict(case, href=chref), "200 + data", st8)
            if ctx.driver:
                m = unchars(ctx.driver.ask1({"m": "quote", "op": "multigeturl", "s": chars(chref)})["r"])
                if m != prefix + npath:
                    ctx.disagree("model multiget decoder (split, unquote, sanitize) on a client-written href", dict(case, href=chref), prefix + npath, m)
        # principal / home-set hrefs
        st6, _, b6 = req("PROPFIND", "/%s/" % user, PROPFIND_PRINCIPAL, HTTP_DEPTH="0")
        if st6 == 207:
            ms, _, _ = parse_multistatus(b6)
            for href0, props in ms.items():
                if not isinstance(props, dict):
                    continue
                for tag, (pst, el) in props.items():
                    if pst != 200:
                        continue
                    for hel in el.iter("{DAV:}href"):
                        t = hel.text or ""
                        if t.startswith("mailto:"):
                            continue
                        p = via_href(t)
                        st7 = None
                        if p is not None:
                            st7, _, _ = req("PROPFIND", p, HTTP_DEPTH="0")
                        if p != "/%s/" % user or st7 != 207:
                            ctx.violation("%s href does not address the principal collection" % tag,
                                          dict(case, href=t, decoded=p), "/%s/" % user, st7)
        else:
            ctx.violation("PROPFIND on the principal failed", case, 207, st6)


def locations(ctx):
    """Location headers (redirects) under generated prefixes."""
    rng = ctx.rng("loc")
    n = ctx.n(40, 600)
    for i in range(n):
        prefix = "/" + gen_name(rng)
        with App({"auth": {"type": "none"}}) as app:
            for path in ("/", "/.well-known/caldav", "/.web"):
                st, hd, _ = app.request("GET", path, SCRIPT_NAME=prefix)
                loc = hd.get("Location")
                if loc is None:
                    continue
                case = {"prefix": prefix, "path": path, "location": loc}
                ctx.case("location", sample=case, key=case, nontrivial=urllib.parse.quote(prefix) != prefix)
                ok_chars = all(c.isascii() and (c.isalnum() or c in "-._~/%") for c in loc)
                decoded = real_request_line_decode(loc)
                if not ok_chars or not decoded.startswith(prefix + "/"):
                    ctx.violation("Location header is not a percent-encoded URL path addressing the target",
                                  case, urllib.parse.quote(prefix) + "/...", loc, finding="F16")


def run(ctx):
    ctx.extra["rule"] = ("names over the property's character set (space %+?#;&:@'\"<>\\ non-ASCII, combining marks, astral) for users, "
                         "collections, items and base prefixes; non-trivial = at least one character needs percent-encoding or the "
                         "function result differs from its input; distinct by canonical JSON of the case")
    ctx.trusted += ["correspondence harness harness/props/c18.py", "wsgiref request parsing outside get_environ",
                    "CPython urllib.parse/posixpath as exercised (validated, not proved)"]
    ctx.assumptions += ["strings are sequences of Unicode scalar values (no lone surrogates)",
                        "the front end strips SCRIPT_NAME / proxy prefix on the decoded path"]
    function_level(ctx)
    url_split_level(ctx)
    move_authority_level(ctx)
    external_wsgi_level(ctx)
    end_to_end(ctx)
    locations(ctx)
