"""C14 — calendar objects and contacts come back exactly as they were stored   (partial).

Theorems: lean/Props/C14.lean (vobject's folder is lossless; vobject's reader inverts it on every sequence of safe
lines; physical lines hold at most 75 bytes; witnesses F5 / F24 of the two unsafe shapes).
Tie (a) the Lean folder / reader / `safe` against vobject.base.foldOneLine and getLogicalLines(allowQP=True) on
generated lines (long, blank runs, non-ASCII incl. exotic blanks, `=` at fold boundaries, "quoted-printable").
Tie (b) the server on a generator grammar of iCalendar and vCard objects (escaped text, long lines, non-ASCII,
quoted parameters, multi-valued properties, X- properties, DATE / DATE-TIME / TZID values, VALARM, VTIMEZONE,
RRULE / EXDATE / RDATE, overrides, CRLF or LF input): what GET returns is parsed by an independent content-line
parser and compared with the upload; GET = REPORT calendar-data / address-data = whole-collection export;
re-uploading what was served gives byte-identical content and the same ETag; a whole calendar / address book
uploaded and exported keeps its objects (by UID) and each VTIMEZONE once.
"""
import io
import os
import re
import shutil
import xml.etree.ElementTree as ET

from common import parse_multistatus, App

PROP_FILES = ["Props/C14.lean"]
LEVEL = "proof"

NS = {"D": "DAV:", "C": "urn:ietf:params:xml:ns:caldav", "CR": "urn:ietf:params:xml:ns:carddav"}


def chars(s):
    return [ord(c) for c in s]


def unchars(a):
    return "".join(chr(x) for x in a)


# ---- (a) folder / reader vs vobject ------------------------------------------------------------------------

def gen_line(rng):
    k = rng.random()
    alphabet = "abcXYZ019 ;:,=\\\t" + "äßé€" + "  "
    if k < 0.25:
        n = rng.choice([0, 1, 10, 73, 74, 75, 76, 77, 149, 150, 151, 300])
        return "".join(rng.choice(alphabet) for _ in range(n))
    if k < 0.5:
        # a run of blanks placed around a fold boundary
        pre = "DESCRIPTION:" + "x" * rng.randint(0, 70)
        return pre + rng.choice([" ", "\t", " ", " "]) * rng.randint(60, 160) + "end"
    if k < 0.75:
        # '=' placed at / next to the end of the first or second physical line, with or without the magic word
        word = rng.choice(["quoted-printable", "QUOTED-PRINTABLE", "Quoted-Printable", "quoted_printable", ""])
        base = "X-NOTE;ENCODING=%s:" % word if rng.random() < 0.5 else "DESCRIPTION:see %s " % word
        pos = rng.choice([73, 74, 75, 148, 149])
        fill = max(0, pos - len(base))
        return base + "y" * fill + "=" + "z" * rng.randint(0, 100)
    n = rng.randint(60, 200)
    return "SUMMARY:" + "".join(rng.choice("abc äö€") for _ in range(n))


def fold_level(ctx):
    from vobject import base
    rng = ctx.rng("fold")
    n = ctx.n(400, 20000)
    lines = [gen_line(rng) for _ in range(n)]
    reqs = [{"m": "fold", "s": chars(s)} for s in lines]
    ans = ctx.driver.ask(reqs) if ctx.driver else [None] * n
    for s, a in zip(lines, ans):
        buf = io.StringIO()
        base.foldOneLine(buf, s)
        text = buf.getvalue()
        real_lines = text.split("\r\n")[:-1]
        real_read = [x[0] for x in base.getLogicalLines(io.StringIO(text), allowQP=True)]
        comes_back = real_read == [s]
        ctx.case("fold:%s" % ("comes-back" if comes_back else "lost"), sample={"line": s[:90], "len": len(s), "comes_back": comes_back},
                 key=s, nontrivial=len(s) >= 75)
        if a is None:
            continue
        m_lines = [unchars(x) for x in a["lines"]]
        m_read = [unchars(x) for x in a["read"]]
        if m_lines != real_lines:
            ctx.disagree("foldOneLine vs model", {"line": s}, real_lines, m_lines)
        elif m_read != real_read:
            ctx.disagree("getLogicalLines(allowQP=True) vs model", {"line": s}, real_read, m_read)
        elif a["safe"] and not comes_back:
            ctx.disagree("a line the model calls safe is not read back by vobject", {"line": s}, real_read, m_read)
        if (s.rstrip() == "") != a["blank"]:
            ctx.disagree("str.rstrip()=='' vs model isBlank", {"line": s}, s.rstrip() == "", a["blank"])
    # sequences of lines
    for i in range(ctx.n(60, 2000)):
        seq = [gen_line(rng) for _ in range(rng.randint(2, 6))]
        buf = io.StringIO()
        for s in seq:
            base.foldOneLine(buf, s)
        text = buf.getvalue()
        real_read = [x[0] for x in base.getLogicalLines(io.StringIO(text), allowQP=True)]
        if ctx.driver:
            a = ctx.driver.ask1({"m": "fold", "lines": [chars(x) for x in text.split("\r\n")[:-1]]})
            m_read = [unchars(x) for x in a["read"]]
            ctx.case("foldseq", sample={"n": len(seq)}, key=[i, "seq"], nontrivial=True)
            if m_read != real_read:
                ctx.disagree("getLogicalLines on a sequence of folded lines vs model", {"lines": seq}, real_read, m_read)


# ---- independent content-line parser ------------------------------------------------------------------------

def parse_content(text):
    """RFC 5545 / 6350 content lines -> nested components: (name, [props], [children]); props = (NAME, sorted params, value)"""
    text = text.replace("\r\n", "\n").replace("\r", "\n")
    phys = text.split("\n")
    logical = []
    for l in phys:
        if l[:1] in (" ", "\t") and logical:
            logical[-1] += l[1:]
        elif l != "":
            logical.append(l)
    root = ("ROOT", [], [])
    stack = [root]
    for l in logical:
        name, params, value = split_line(l)
        if name == "BEGIN":
            comp = (value.upper(), [], [])
            stack[-1][2].append(comp)
            stack.append(comp)
        elif name == "END":
            if len(stack) > 1:
                stack.pop()
        else:
            stack[-1][1].append((name, tuple(sorted(params)), value))
    return root


def split_line(l):
    i = 0
    inq = False
    while i < len(l):
        c = l[i]
        if c == '"':
            inq = not inq
        elif c == ":" and not inq:
            break
        i += 1
    head, value = l[:i], l[i + 1:]
    parts = []
    cur = ""
    inq = False
    for c in head:
        if c == '"':
            inq = not inq
            cur += c
        elif c == ";" and not inq:
            parts.append(cur)
            cur = ""
        else:
            cur += c
    parts.append(cur)
    name = parts[0].upper()
    params = []
    for p in parts[1:]:
        if "=" in p:
            k, v = p.split("=", 1)
            vals = tuple(sorted(x.strip('"') for x in split_unquoted(v, ",")))
            params.append((k.upper(), vals))
        else:
            params.append((p.upper(), ()))
    return name, params, value


def split_unquoted(s, sep):
    out, cur, inq = [], "", False
    for c in s:
        if c == '"':
            inq = not inq
            cur += c
        elif c == sep and not inq:
            out.append(cur)
            cur = ""
        else:
            cur += c
    out.append(cur)
    return out


IGNORED_PROPS = {"PRODID", "VERSION"}            # the server may add / keep these on the wrapper


def canon(comp, top=True):
    name, props, children = comp
    ps = sorted((n, p, norm_value(n, v)) for n, p, v in props if not (name in ("VCALENDAR",) and n in IGNORED_PROPS))
    return (name, tuple(ps), tuple(sorted(canon(c, False) for c in children)))


def norm_value(name, v):
    # escaped characters are case-insensitive for the line feed escape
    return v.replace("\\N", "\\n")


# ---- (b) objects ---------------------------------------------------------------------------------------------

TEXTS = ["plain", "with\\, comma and\\; semicolon", "line\\nbreak", "back\\\\slash", "ünïcödé €", "colon: inside",
         "a" * 90, "long " + "wörd " * 30, "trailing blank ", "quote \"inside\"", "equals=sign", "tab\there",
         # characters Python's str.splitlines() treats as line ends but iCalendar does not
         "Budget\u2028 review", "para\u2029graph", "next\u0085line", "form\u000cfeed kept?"[:4] + " feed"]


def gen_event(rng, uid, with_tz=False, override=False):
    lines = ["BEGIN:VEVENT", "UID:%s" % uid, "DTSTAMP:20240101T000000Z"]
    k = rng.random()
    if with_tz:
        lines.append("DTSTART;TZID=Europe/Berlin:20240102T100000")
        lines.append("DTEND;TZID=Europe/Berlin:20240102T110000")
    elif k < 0.3:
        lines.append("DTSTART;VALUE=DATE:20240102")
        lines.append("DTEND;VALUE=DATE:20240103")
    elif k < 0.6:
        lines.append("DTSTART:20240102T100000Z")
        lines.append("DURATION:PT1H")
    else:
        lines.append("DTSTART:20240102T100000Z")
        lines.append("DTEND:20240102T113000Z")
    if override:
        lines.append("RECURRENCE-ID:20240109T100000Z")
    elif rng.random() < 0.4 and not with_tz and k >= 0.3:
        lines.append("RRULE:FREQ=WEEKLY;COUNT=5")
        if rng.random() < 0.5:
            lines.append("EXDATE:20240116T100000Z")
        if rng.random() < 0.3:
            lines.append("RDATE:20240120T100000Z,20240121T100000Z")
    lines.append("SUMMARY:%s" % rng.choice(TEXTS))
    if rng.random() < 0.6:
        lines.append("DESCRIPTION:%s" % rng.choice(TEXTS))
    if rng.random() < 0.4:
        lines.append("CATEGORIES:one,two words,three")
    if rng.random() < 0.4:
        lines.append('ATTENDEE;CN="Doe, John";ROLE=REQ-PARTICIPANT;RSVP=TRUE:mailto:john@example.org')
    if rng.random() < 0.3:
        lines.append("X-CUSTOM-PROP;X-PARAM=value:%s" % rng.choice(TEXTS))
    if rng.random() < 0.3:
        lines.append("LOCATION;LANGUAGE=de:%s" % rng.choice(TEXTS))
    if rng.random() < 0.35:
        lines += ["BEGIN:VALARM", "ACTION:DISPLAY", "DESCRIPTION:%s" % rng.choice(TEXTS[:6]), "TRIGGER:-PT15M", "END:VALARM"]
    lines.append("END:VEVENT")
    return lines


VTIMEZONE = ["BEGIN:VTIMEZONE", "TZID:Europe/Berlin", "BEGIN:STANDARD", "DTSTART:19701025T030000", "TZOFFSETFROM:+0200", "TZOFFSETTO:+0100",
             "RRULE:FREQ=YEARLY;BYMONTH=10;BYDAY=-1SU", "TZNAME:CET", "END:STANDARD", "BEGIN:DAYLIGHT", "DTSTART:19700329T020000",
             "TZOFFSETFROM:+0100", "TZOFFSETTO:+0200", "RRULE:FREQ=YEARLY;BYMONTH=3;BYDAY=-1SU", "TZNAME:CEST", "END:DAYLIGHT", "END:VTIMEZONE"]


def gen_calendar_object(rng, uid, recurring=False):
    kind = rng.random()
    with_tz = rng.random() < 0.3
    if recurring:
        kind, with_tz = 0.0, False
    body = ["BEGIN:VCALENDAR", "VERSION:2.0", "PRODID:-//verif c14//EN"]
    if with_tz:
        body += VTIMEZONE
    if kind < 0.7:
        body += gen_event(rng, uid, with_tz)
        if (recurring or rng.random() < 0.2) and not with_tz:
            # a recurring main event with an override
            body = body[:3] + ["BEGIN:VEVENT", "UID:%s" % uid, "DTSTAMP:20240101T000000Z", "DTSTART:20240102T100000Z", "DTEND:20240102T110000Z",
                               "RRULE:FREQ=WEEKLY;COUNT=4", "SUMMARY:main", "END:VEVENT"] + gen_event(rng, uid, False, override=True)
    elif kind < 0.85:
        body += ["BEGIN:VTODO", "UID:%s" % uid, "DTSTAMP:20240101T000000Z", "DUE;VALUE=DATE:20240110", "SUMMARY:%s" % rng.choice(TEXTS),
                 "STATUS:NEEDS-ACTION", "PRIORITY:5", "END:VTODO"]
    else:
        body += ["BEGIN:VJOURNAL", "UID:%s" % uid, "DTSTAMP:20240101T000000Z", "DTSTART;VALUE=DATE:20240102", "SUMMARY:%s" % rng.choice(TEXTS),
                 "DESCRIPTION:%s" % rng.choice(TEXTS), "END:VJOURNAL"]
    body.append("END:VCALENDAR")
    return body


def gen_card(rng, uid):
    v4 = rng.random() < 0.4
    lines = ["BEGIN:VCARD", "VERSION:%s" % ("4.0" if v4 else "3.0"), "UID:%s" % uid, "FN:%s" % rng.choice(TEXTS[:6]),
             "N:Doe;John;Q.;Dr.;Jr."]
    if rng.random() < 0.6:
        lines.append("EMAIL;TYPE=%s:john@example.org" % ("work" if v4 else "INTERNET,PREF"))
    if rng.random() < 0.5:
        lines.append("TEL;TYPE=%s:+49 30 1234567" % ('"voice,home"' if v4 else "HOME,VOICE"))
    if rng.random() < 0.5:
        lines.append("ADR;TYPE=HOME:;;Hauptstraße 1\\, Hinterhaus;Berlin;;10115;Germany")
    if rng.random() < 0.4:
        lines.append("NOTE:%s" % rng.choice(TEXTS))
    if rng.random() < 0.3:
        lines.append("X-CUSTOM;X-P=1:%s" % rng.choice(TEXTS[:6]))
    if rng.random() < 0.3:
        lines.append("ORG:Example Inc.;Research;Team A")
    if rng.random() < 0.3:
        lines.append("BDAY:%s" % ("19800102" if v4 else "1980-01-02"))
    lines.append("END:VCARD")
    return lines


def report_data(app, coll, href, book):
    if book:
        body = ('<?xml version="1.0"?><CR:addressbook-multiget xmlns:D="DAV:" xmlns:CR="urn:ietf:params:xml:ns:carddav"><D:prop><D:getetag/>'
                '<CR:address-data/></D:prop><D:href>%s%s</D:href></CR:addressbook-multiget>' % (coll, href))
    else:
        body = ('<?xml version="1.0"?><C:calendar-multiget xmlns:D="DAV:" xmlns:C="urn:ietf:params:xml:ns:caldav"><D:prop><D:getetag/>'
                '<C:calendar-data/></D:prop><D:href>%s%s</D:href></C:calendar-multiget>' % (coll, href))
    st, _, text = app.request("REPORT", coll, body, login="u:pw")
    if st != 207:
        return None, None
    root = ET.fromstring(text)
    d = root.find(".//CR:address-data" if book else ".//C:calendar-data", NS)
    e = root.find(".//D:getetag", NS)
    return (d.text if d is not None else None), (e.text if e is not None else None)


def object_level(ctx):
    rng = ctx.rng("objects")
    n = ctx.n(150, 6000)
    with App({"auth": {"type": "none"}}) as app:
        assert app.request("MKCALENDAR", "/u/cal/", login="u:pw")[0] == 201
        mk = ('<?xml version="1.0"?><D:mkcol xmlns:D="DAV:" xmlns:CR="urn:ietf:params:xml:ns:carddav"><D:set><D:prop><D:resourcetype>'
              '<D:collection/><CR:addressbook/></D:resourcetype></D:prop></D:set></D:mkcol>')
        assert app.request("MKCOL", "/u/ab/", mk, login="u:pw")[0] == 201
        for i in range(n):
            book = rng.random() < 0.3
            uid = "obj%d" % i
            lines = gen_card(rng, uid) if book else gen_calendar_object(rng, uid)
            eol = rng.choice(["\r\n", "\r\n", "\n"])
            body = eol.join(lines) + eol
            coll = "/u/ab/" if book else "/u/cal/"
            href = "%s.%s" % (uid, "vcf" if book else "ics")
            ctype = "text/vcard" if book else "text/calendar"
            st, hd, _ = app.request("PUT", coll + href, body, login="u:pw", CONTENT_TYPE=ctype)
            case = {"kind": "vcard" if book else "icalendar", "eol": "CRLF" if eol == "\r\n" else "LF", "upload": lines}
            if st not in (201, 204):
                ctx.case("rejected:%s" % st, sample=dict(case, status=st), key=[i], nontrivial=False)
                ctx.violation("a valid object from the grammar was refused with %d" % st, case)
                continue
            etag1 = hd.get("ETag")
            st1, hd1, served = app.request("GET", coll + href, login="u:pw")
            ctx.case("%s:%s" % (case["kind"], lines[3 if not book else 1].split(":")[0].split(";")[0]), sample=dict(case, served=served[:300]),
                     key=[i], nontrivial=any(len(x) > 75 for x in lines) or any(ord(c) > 127 for x in lines for c in x))
            if st1 != 200:
                ctx.violation("GET of a stored object answers %d" % st1, case)
                continue
            # same content as uploaded (independent parser)
            up = canon(parse_content(body))
            got = canon(parse_content(served))
            if up != got:
                du = set(flatten(up)) - set(flatten(got))
                dg = set(flatten(got)) - set(flatten(up))
                ctx.violation("the served object differs from the upload: missing %s, extra %s" % (sorted(du)[:3], sorted(dg)[:3]), case)
            if hd1.get("ETag") != etag1:
                ctx.violation("ETag of GET differs from the ETag PUT returned", case)
            # the four read paths agree
            data, retag = report_data(app, coll, href, book)
            if data is None or data.replace("\r\n", "\n") != served.replace("\r\n", "\n"):
                ctx.violation("REPORT data differs from the GET body", case)
            if retag != etag1:
                ctx.violation("REPORT getetag differs from the PUT ETag", case)
            # ... and the whole-collection export carries the same object
            ste, _, export = app.request("GET", coll, login="u:pw")
            exp_root = parse_content(export) if ste == 200 else ("ROOT", [], [])
            exp_comps = exp_root[2] if book else (exp_root[2][0][2] if exp_root[2] else [])
            mine = sorted(canon(c, False) for c in exp_comps if any(n_ == "UID" and v == uid for n_, p_, v in c[1]))
            up_root = parse_content(body)
            up_comps = up_root[2] if book else up_root[2][0][2]
            want = sorted(canon(c, False) for c in up_comps if any(n_ == "UID" and v == uid for n_, p_, v in c[1]))
            if mine != want:
                ctx.violation("the whole-collection export carries the object differently from the upload", case)
            # without the cache entry the same bytes are served
            shutil.rmtree(os.path.join(app.folder, "collection-root", "u", coll.strip("/").split("/")[1], ".Radicale.cache", "item"), ignore_errors=True)
            st2, hd2, served2 = app.request("GET", coll + href, login="u:pw")
            if (st2, served2, hd2.get("ETag")) != (200, served, etag1):
                ctx.violation("after removal of the item cache the object is served differently (status %s)" % st2, case)
            # fixed point
            st3, hd3, _ = app.request("PUT", coll + href, served, login="u:pw", CONTENT_TYPE=ctype)
            st4, hd4, served3 = app.request("GET", coll + href, login="u:pw")
            if st3 not in (201, 204) or served3 != served or hd4.get("ETag") != etag1:
                ctx.violation("re-uploading what the server served does not give the same bytes and ETag (PUT %s)" % st3, case)
            if i % 10 == 9:
                app.request("DELETE", "/u/cal/", login="u:pw")
                app.request("MKCALENDAR", "/u/cal/", login="u:pw")
                app.request("DELETE", "/u/ab/", login="u:pw")
                app.request("MKCOL", "/u/ab/", mk, login="u:pw")


def flatten(c, path=""):
    name, props, children = c
    out = [(path + "/" + name,) + p for p in props]
    for ch in children:
        out += flatten(ch, path + "/" + name)
    return out


def collection_level(ctx):
    """whole calendar / address book: upload, export, compare sets of objects by UID; VTIMEZONE once"""
    rng = ctx.rng("collections")
    n = ctx.n(25, 800)
    for i in range(n):
        book = rng.random() < 0.3
        k = rng.randint(1, 5)
        uids = ["w%d_%d" % (i, j) for j in range(k)]
        if rng.random() < 0.3:
            # UIDs whose derived file names coincide (X and X.ics -> X.ics, also case variants): the second object takes the
            # fall-back name; both are objects of the upload and both must come back
            sfx = ".vcf" if book else ".ics"
            base = uids[0]
            uids = (uids + [base + sfx] + ([base + sfx.upper()] if rng.random() < 0.4 else []))
            if rng.random() < 0.5:
                uids.reverse()
            k = len(uids)
        with App({"auth": {"type": "none"}}) as app:
            if book:
                objs = [gen_card(rng, u) for u in uids]
                body = "\r\n".join("\r\n".join(o) for o in objs) + "\r\n"
                st, _, _ = app.request("PUT", "/u/ab/", body, login="u:pw", CONTENT_TYPE="text/vcard")
                coll = "/u/ab/"
            else:
                comps = []
                tz = False
                for u in uids:
                    o = gen_calendar_object(rng, u, recurring=rng.random() < 0.4)
                    inner = o[3:-1]
                    if inner[:1] == ["BEGIN:VTIMEZONE"]:
                        inner = inner[len(VTIMEZONE):]
                        tz = True
                    comps.append(inner)
                lines = ["BEGIN:VCALENDAR", "VERSION:2.0", "PRODID:-//verif c14//EN"] + (VTIMEZONE if tz else [])
                # the components of one object (a recurring event and its overrides) need not be adjacent in an upload:
                # in half of the cases all top-level components are put in a random order
                tops = []
                for c in comps:
                    depth, cur = 0, []
                    for ln in c:
                        cur.append(ln)
                        if ln.startswith("BEGIN:"):
                            depth += 1
                        elif ln.startswith("END:"):
                            depth -= 1
                            if depth == 0:
                                tops.append(cur)
                                cur = []
                interleaved = rng.random() < 0.5
                if interleaved:
                    rng.shuffle(tops)
                    comps = tops
                for c in comps:
                    lines += c
                lines.append("END:VCALENDAR")
                body = "\r\n".join(lines) + "\r\n"
                st, _, _ = app.request("PUT", "/u/cal/", body, login="u:pw", CONTENT_TYPE="text/calendar")
                coll = "/u/cal/"
            case = {"kind": "addressbook" if book else "calendar", "objects": k, "upload_head": body[:200],
                    "components_in_random_order": (not book) and interleaved}
            ctx.case("whole:%s" % case["kind"], sample=case, key=[i, "whole"], nontrivial=k > 1)
            if st != 201:
                ctx.violation("a whole-collection upload from the grammar was refused with %d" % st, case)
                continue
            st1, _, export = app.request("GET", coll, login="u:pw")
            if st1 != 200:
                ctx.violation("export of the collection answers %d" % st1, case)
                continue
            if not book:
                export_vs_model(ctx, app, coll, case)
            up = parse_content(body)
            ex = parse_content(export)

            def objects(root):
                out = {}
                tzs = []
                comps = root[2] if book else (root[2][0][2] if root[2] else [])
                for c in comps:
                    if c[0] == "VTIMEZONE":
                        tzs.append(c)
                        continue
                    uid = [v for n_, p, v in c[1] if n_ == "UID"]
                    out.setdefault(uid[0] if uid else "?", []).append(canon(c, False))
                return {u: sorted(v) for u, v in out.items()}, tzs
            uo, utz = objects(up)
            eo, etz = objects(ex)
            if uo != eo:
                ctx.violation("export differs from the uploaded collection: uploaded UIDs %s, exported %s" % (sorted(uo), sorted(eo)), case)
            # the stored objects themselves: one per UID, each holding all (and only) the components of its UID
            stp, _, listing = app.request("PROPFIND", coll, '<?xml version="1.0"?><D:propfind xmlns:D="DAV:"><D:prop><D:getetag/></D:prop></D:propfind>',
                                          login="u:pw", HTTP_DEPTH="1")
            if stp != 207:
                ctx.violation("PROPFIND on the uploaded collection answers %d" % stp, case)
                continue
            ms, order, _ = parse_multistatus(listing)
            hrefs = [h for h in order if h.rstrip("/") != coll.rstrip("/")]
            stored = {}
            for h in hrefs:
                stg, _, text = app.request("GET", h, login="u:pw")
                if stg != 200:
                    ctx.violation("GET of a listed member answers %d" % stg, dict(case, href=h))
                    continue
                one, _ = objects(parse_content(text))
                if len(one) != 1:
                    ctx.violation("a stored object holds components of %d UIDs" % len(one), dict(case, href=h, uids=sorted(one)))
                for u_, cs in one.items():
                    stored.setdefault(u_, []).append(cs)
            split = {u_: len(v) for u_, v in stored.items() if len(v) > 1}
            if split:
                ctx.violation("components sharing a UID were stored as several objects (%s): the set of objects of the upload is not preserved"
                              % split, dict(case, members=len(hrefs), upload=body if len(body) < 3000 else body[:3000]))
            elif {u_: v[0] for u_, v in stored.items()} != uo:
                ctx.violation("the stored objects differ from the uploaded ones: uploaded UIDs %s, stored %s" % (sorted(uo), sorted(stored)), case)
            tzids = [[v for n_, p, v in t[1] if n_ == "TZID"] for t in etz]
            if len(tzids) != len(set(map(tuple, tzids))):
                ctx.violation("a VTIMEZONE appears more than once in the export", case)
            referenced = any(k == "TZID" for c in flatten(up) for k, _ in (c[2] if len(c) > 2 and isinstance(c[2], tuple) else ()))
            if utz and referenced and not etz:
                # (a time zone definition no component refers to is not carried over to the split objects; that is
                #  not counted as a lost object)
                ctx.violation("the VTIMEZONE of the upload, referenced by a component, is missing in the export", case)


VTIMEZONE_B = [l for l in VTIMEZONE if not l.startswith("TZNAME")][:-1] + ["X-LIC-LOCATION:Europe/Berlin", "END:VTIMEZONE"]


def individual_export_level(ctx):
    """objects stored one by one (as different clients would), several of them with their own — textually different —
    definition of the same time zone: the export holds every object, and each TZID once"""
    rng = ctx.rng("individual")
    for i in range(ctx.n(12, 300)):
        k = rng.randint(2, 5)
        with App({"auth": {"type": "none"}}) as app:
            app.request("MKCALENDAR", "/u/cal/", login="u:pw")
            uploaded = {}
            ntz = 0
            for j in range(k):
                uid = "i%d_%d" % (i, j)
                o = gen_calendar_object(rng, uid)
                for _ in range(20):
                    if not (i % 2 == 0 and j < 2) or o[3:4] == ["BEGIN:VTIMEZONE"]:
                        break
                    o = gen_calendar_object(rng, uid)      # in every other round the first two objects carry a time zone
                if o[3:4] == ["BEGIN:VTIMEZONE"]:
                    ntz += 1
                    if rng.random() < 0.5:
                        o = o[:3] + VTIMEZONE_B + o[3 + len(VTIMEZONE):]
                body = "\r\n".join(o) + "\r\n"
                st, _, _ = app.request("PUT", "/u/cal/%s.ics" % uid, body, login="u:pw", CONTENT_TYPE="text/calendar")
                if st == 201:
                    uploaded[uid] = body
            st1, _, export = app.request("GET", "/u/cal/", login="u:pw")
            case = {"objects": len(uploaded), "with_timezone": ntz}
            ctx.case("export-of-individual-objects", sample=case, key=[i, "ind"], nontrivial=ntz > 1)
            if st1 != 200:
                ctx.violation("export of the collection answers %d" % st1, case)
                continue
            ex = parse_content(export)
            comps = ex[2][0][2] if ex[2] else []
            tzids = [v for c in comps if c[0] == "VTIMEZONE" for n_, p_, v in c[1] if n_ == "TZID"]
            if len(tzids) != len(set(tzids)):
                ctx.violation("a VTIMEZONE appears more than once in the export (TZIDs %s)" % tzids, dict(case, uploads=list(uploaded.values())[:5]))
            if ntz and not tzids:
                ctx.violation("the time zone definition of the stored objects is missing in the export", case)
            export_vs_model(ctx, app, "/u/cal/", case)
            uids = sorted(v for c in comps if c[0] != "VTIMEZONE" for n_, p_, v in c[1] if n_ == "UID")
            if sorted(set(uids)) != sorted(uploaded):
                ctx.violation("the export holds objects %s, stored were %s" % (sorted(set(uids)), sorted(uploaded)), case)


def export_vs_model(ctx, app, coll_path, case):
    """`BaseCollection.serialize()` against the line-level model (lean/RadicaleModel/Export.lean) on the very item texts, in the
    order the storage yields them"""
    if not ctx.driver:
        return
    with app.storage.acquire_lock("r"):
        coll = next(iter(app.storage.discover(coll_path)), None)
        if coll is None:
            return
        texts = [it.serialize() for it in coll.get_all()]
        real = coll.serialize()
    a = ctx.driver.ask1({"m": "fold", "items": [[chars(l) for l in t.split("\r\n")] for t in texts]})
    body = "".join(unchars(l) + "\r\n" for l in a["body"])
    tail = body + "END:VCALENDAR\r\n"
    if not real.endswith(tail):
        ctx.disagree("whole-calendar export vs model (Export.body)", dict(case, items=len(texts)), real[-min(len(real), len(tail) + 80):][:600], tail[:600])
    head = real[:len(real) - len(tail)] if real.endswith(tail) else ""
    if head and [l for l in head.split("\r\n") if l.startswith("BEGIN:") and l != "BEGIN:VCALENDAR"]:
        ctx.disagree("the export's head holds components the model does not produce", case, head[:300], "template only")


def stock_encoding_level(ctx):
    """a storage encoding other than UTF-8 ([encoding] stock = iso-8859-1 / cp1252 / utf-16): objects whose characters that
    encoding can represent come back unchanged through every path — single PUT, whole-collection PUT, GET, export, re-upload"""
    rng = ctx.rng("stock")
    words = ["Caf\u00e9 d\u00e9j\u00e0 vu", "Stra\u00dfe \u00fc\u00f6\u00e4", "\u00a1Ol\u00e9! \u00f1", "plain"]
    for rnd in range(ctx.n(6, 120)):
        stock = rng.choice(["iso-8859-1", "iso-8859-1", "cp1252", "utf-16", "utf-8"])
        with App({"auth": {"type": "none"}, "encoding": {"stock": stock}}) as app:
            ev = lambda uid, w: ["BEGIN:VEVENT", "UID:%s" % uid, "DTSTAMP:20240101T000000Z", "DTSTART:20240102T100000Z", "SUMMARY:%s" % w,   # noqa: E731
                                 "LOCATION:%s" % w[::-1], "END:VEVENT"]
            expected = {}
            comps = []
            for j in range(rng.randint(2, 3)):
                w = rng.choice(words)
                expected["/u/w/"] = expected.get("/u/w/", []) + [w]
                comps += ev("w%d_%d" % (rnd, j), w)
            whole = "\r\n".join(["BEGIN:VCALENDAR", "VERSION:2.0", "PRODID:x"] + comps + ["END:VCALENDAR"]) + "\r\n"
            st_w, _, _ = app.request("PUT", "/u/w/", whole, login="u:pw", CONTENT_TYPE="text/calendar; charset=utf-8")
            w1 = rng.choice(words)
            app.request("MKCALENDAR", "/u/s/", login="u:pw")
            single = "\r\n".join(["BEGIN:VCALENDAR", "VERSION:2.0", "PRODID:x"] + ev("s%d" % rnd, w1) + ["END:VCALENDAR"]) + "\r\n"
            st_s, _, _ = app.request("PUT", "/u/s/one.ics", single, login="u:pw", CONTENT_TYPE="text/calendar; charset=utf-8")
            cards = "".join("BEGIN:VCARD\r\nVERSION:3.0\r\nUID:c%d_%d\r\nFN:%s\r\nN:%s;;;;\r\nEND:VCARD\r\n" % (rnd, j, w, w) for j, w in enumerate(words[:2]))
            st_c, _, _ = app.request("PUT", "/u/ab/", cards, login="u:pw", CONTENT_TYPE="text/vcard; charset=utf-8")
            case = {"stock_encoding": stock, "statuses": {"whole calendar": st_w, "single": st_s, "whole address book": st_c}}
            ctx.case("stock-encoding:%s" % stock, sample=case, key=["stock", rnd], nontrivial=stock != "utf-8")
            for what, st_ in case["statuses"].items():
                if st_ != 201:
                    ctx.violation("%s upload of text the storage encoding can represent was answered %d" % (what, st_), case)
            checks = [("/u/s/one.ics", [w1]), ("/u/s/", [w1]), ("/u/w/", expected["/u/w/"]), ("/u/ab/", words[:2])]
            ms = parse_multistatus(app.request("PROPFIND", "/u/w/", login="u:pw", HTTP_DEPTH="1")[2])[1] if st_w == 201 else []
            for h in ms:
                if h.rstrip("/") != "/u/w":
                    checks.append((h, None))
            for path, ws in checks:
                st, _, text = app.request("GET", path, login="u:pw")
                if st != 200:
                    ctx.violation("GET %s answers %d under stock encoding %s" % (path, st, stock), case)
                    continue
                vals = [l.split(":", 1)[1] for l in text.replace("\r\n ", "").split("\r\n") if l.startswith(("SUMMARY:", "FN:"))]
                if ws is None:
                    if not vals or any(v not in words for v in vals):
                        ctx.violation("object %s of the whole upload is served with %r (stock encoding %s)" % (path, vals, stock), case, words, vals)
                elif sorted(vals) != sorted(ws):
                    ctx.violation("%s is served with %r, stored was %r (stock encoding %s)" % (path, vals, ws, stock), case, ws, vals)
            # fixed point of the export
            st, _, export = app.request("GET", "/u/w/", login="u:pw")
            if st == 200 and st_w == 201:
                app.request("PUT", "/u/w2/", export, login="u:pw", CONTENT_TYPE="text/calendar; charset=utf-8")
                st2, _, export2 = app.request("GET", "/u/w2/", login="u:pw")
                if st2 != 200 or export2 != export:
                    ctx.violation("re-uploading the export gives another export under stock encoding %s" % stock, case)


def bulk_names_level(ctx):
    """the naming loop of whole-collection uploads (`_upload_all_nonatomic`) against RadicaleModel/BulkNames.lean: the storage is
    asked to create a collection from a list of objects whose UIDs want the same file name (X / X.ics / X.ICS), are not usable as
    file names (dot names, `~`, `/`), or equal the digest name of another one; oracle: as many stored objects as uploaded, under
    pairwise different safe names; correspondence: the name of every object and which candidate it was"""
    import vobject
    import radicale.item as ritem
    from radicale import pathutils
    if not ctx.driver:
        return
    rng = ctx.rng("bulknames")
    bases = ["X", "Y", "event", "café", "İ", "a b", "x.İcs", "K"]
    orig_find = ritem.find_available_uid
    for i in range(ctx.n(40, 1500)):
        book = rng.random() < 0.3
        sfx = ".vcf" if book else ".ics"
        dg = lambda u: ritem.get_etag(u).strip('"')      # noqa: E731
        pool = []
        for b in rng.sample(bases, 2):
            pool += [b, b + sfx, b + sfx.upper(), b.upper() + sfx, b.lower() + sfx, dg(b + sfx) + sfx, dg(b + sfx), dg(b) + sfx, "." + b, b + "~",
                     b + "/z", "..", b + sfx + sfx, b + ".", dg(dg(b + sfx) + sfx) + sfx]
        uids = list(dict.fromkeys(rng.sample(pool, rng.randint(1, 7))))
        items = []
        for u in uids:
            if book:
                text = "BEGIN:VCARD\r\nVERSION:3.0\r\nUID:%s\r\nFN:f\r\nN:f;;;;\r\nEND:VCARD\r\n" % u
            else:
                text = ("BEGIN:VCALENDAR\r\nVERSION:2.0\r\nPRODID:x\r\nBEGIN:VEVENT\r\nUID:%s\r\nDTSTAMP:20240101T000000Z\r\nDTSTART:20240102T100000Z\r\n"
                        "SUMMARY:s\r\nEND:VEVENT\r\nEND:VCALENDAR\r\n" % u)
            items.append(ritem.Item(collection_path="u/bn", vobject_item=vobject.readOne(text)))
        draws = []

        def recording(exists_fn, suffix=""):
            name = orig_find(exists_fn, suffix)
            draws.append(name)
            return name
        case = {"suffix": sfx, "uids": uids}
        with App({"auth": {"type": "none"}}) as app:
            ritem.find_available_uid = recording
            try:
                with app.storage.acquire_lock("w"):
                    coll = app.storage.create_collection("/u/bn/", items=items, props={"tag": "VADDRESSBOOK" if book else "VCALENDAR"})
                    got = [(it.href, it.uid) for it in coll.get_all()]
            except Exception as e:
                ctx.violation("creating a collection from %d objects raised %r" % (len(uids), e), case)
                continue
            finally:
                ritem.find_available_uid = orig_find
        by_uid = {}
        for h, u in got:
            by_uid.setdefault(u, []).append(h)
        case["stored"] = sorted(got)
        ctx.case("bulknames:%s:%d" % (sfx, len(uids)), sample=case, key=["bulk", i], nontrivial=len(uids) > 1)
        if sorted(by_uid) != sorted(uids) or any(len(v) != 1 for v in by_uid.values()):
            ctx.violation("uploaded %d objects %s, the collection holds %s" % (len(uids), sorted(uids), sorted(got)), case)
            continue
        hrefs = [by_uid[u][0] for u in uids]
        if len(set(hrefs)) != len(hrefs) or not all(pathutils.is_safe_filesystem_path_component(h) for h in hrefs):
            ctx.violation("the objects of one upload did not get pairwise different safe names: %s" % hrefs, case)
        a = ctx.driver.ask1({"m": "bulknames", "suffix": chars(sfx), "uids": [chars(u) for u in uids], "taken": [],
                             "hash": [[chars(u), chars(dg(u))] for u in uids], "fresh": [chars(d) for d in draws]})
        model = [unchars(r["href"]) for r in a["r"]]
        kinds = [r["kind"] for r in a["r"]]
        if model != hrefs or [unchars(x) for x in a["assign"]] != hrefs:
            ctx.disagree("names given by _upload_all_nonatomic vs model BulkNames.assign", case, hrefs, model)
        elif kinds.count(3) != len(draws):
            ctx.disagree("number of random names drawn vs model", case, len(draws), kinds.count(3))
        for k in set(kinds):
            ctx.case("bulknames:candidate-%d" % k, sample=dict(case, kinds=kinds), key=["bulk-kind", i, k], nontrivial=k > 1)


def date_list_quirk_level(ctx):
    """the one place where Radicale rewrites a value on purpose (work-around for Evolution, item/__init__.py): EXDATE / RDATE of the
    other value type than DTSTART are converted to DTSTART's type.  What must come back is the same *dates*: year, month and day of
    every entry, in DTSTART's type, through GET and the export, and the stored object is a fixed point"""
    rng = ctx.rng("datelists")
    for i in range(ctx.n(24, 400)):
        allday = rng.random() < 0.5
        prop = rng.choice(["EXDATE", "RDATE", "both"])
        days = sorted(rng.sample([(1, 9), (1, 16), (1, 23), (1, 30), (2, 6), (2, 13), (3, 5), (5, 3), (2, 2), (12, 1), (10, 31), (7, 4)], rng.randint(1, 3)))
        fmt_other = (lambda m, d: "2024%02d%02dT100000Z" % (m, d)) if allday else (lambda m, d: "2024%02d%02d" % (m, d))
        lines = ["BEGIN:VCALENDAR", "VERSION:2.0", "PRODID:-//verif c14//EN", "BEGIN:VEVENT", "UID:q%d" % i, "DTSTAMP:20240101T000000Z"]
        lines += ["DTSTART;VALUE=DATE:20240102", "DTEND;VALUE=DATE:20240103"] if allday else ["DTSTART:20240102T100000Z", "DTEND:20240102T110000Z"]
        lines.append("RRULE:FREQ=WEEKLY;COUNT=60")
        uploaded = {}
        for pn in (["EXDATE", "RDATE"] if prop == "both" else [prop]):
            sep_lines = rng.random() < 0.4 and len(days) > 1
            vals = [fmt_other(m, d) for m, d in days]
            par = "" if allday else ";VALUE=DATE"
            if sep_lines:
                lines += ["%s%s:%s" % (pn, par, v) for v in vals]
            else:
                lines.append("%s%s:%s" % (pn, par, ",".join(vals)))
            uploaded[pn] = sorted("2024%02d%02d" % (m, d) for m, d in days)
        lines += ["SUMMARY:date lists", "END:VEVENT", "END:VCALENDAR"]
        body = "\r\n".join(lines) + "\r\n"
        case = {"all_day": allday, "lists": uploaded, "upload": lines[6:-3]}
        with App({"auth": {"type": "none"}}) as app:
            app.request("MKCALENDAR", "/u/cal/", login="u:pw")
            st, _, _ = app.request("PUT", "/u/cal/q.ics", body, login="u:pw", CONTENT_TYPE="text/calendar")
            ctx.case("datelists:%s:%s" % ("date" if allday else "date-time", prop), sample=dict(case, status=st), key=["datelists", i], nontrivial=True)
            if st != 201:
                ctx.violation("an event with %s of the other value type than DTSTART was refused with %d" % (prop, st), case)
                continue
            for how, path in (("GET", "/u/cal/q.ics"), ("export", "/u/cal/")):
                st2, _, text = app.request("GET", path, login="u:pw")
                if st2 != 200:
                    ctx.violation("%s answers %d" % (how, st2), case)
                    continue
                got = {}
                wrong_type = []
                for row in flatten(parse_content(text)):
                    path_, n_, v = row[0], row[1], row[3]
                    if path_.endswith("/VEVENT") and n_ in ("EXDATE", "RDATE"):
                        for x in v.split(","):
                            got.setdefault(n_, []).append(x[:8])
                            if (len(x) == 8) != allday:
                                wrong_type.append(x)
                got = {k: sorted(v) for k, v in got.items()}
                if got != uploaded:
                    ctx.violation("the dates of %s do not come back (%s): uploaded %s, served %s" % (prop, how, uploaded, got), dict(case, read=how))
                elif wrong_type:
                    ctx.disagree("converted date lists have DTSTART's value type", dict(case, read=how), wrong_type, "all of DTSTART's type")
            st3, _, served = app.request("GET", "/u/cal/q.ics", login="u:pw")
            st4, _, _ = app.request("PUT", "/u/cal/q.ics", served, login="u:pw", CONTENT_TYPE="text/calendar")
            st5, _, again = app.request("GET", "/u/cal/q.ics", login="u:pw")
            if st4 not in (201, 204) or again != served:
                ctx.violation("the stored object with converted date lists is not a fixed point of re-upload (%s)" % st4, case)


def request_charset_level(ctx):
    """the charset a client declares for the request body (a parameter of Content-Type, first or after other parameters, any letter case)
    is the one its non-ASCII text is read with: what comes back is the text the client meant.  (ASCII-compatible charsets: the same
    charset is applied to the Basic credentials of the request, UTF-16 bodies fail at the login - seen before in C19, not a matter of C14)"""
    rng = ctx.rng("reqcharset")
    words = {"windows-1252": "Caf\u00e9 \u20ac \u0160koda", "iso-8859-2": "\u0141ukasz \u017b\u00f3\u0142\u0107-\u0160\u0165astn\u00fd", "iso-8859-1": "d\u00e9j\u00e0 vu \u00a7",
             "utf-8": "caf\u00e9 \u65e5\u672c \U0001f600", "koi8-r": "\u041f\u0440\u0438\u0432\u0435\u0442"}
    forms = ["%s; charset=%s", "%s;charset=%s", "%s; component=VEVENT; charset=%s", "%s; x=y ;  charset=%s", "%s; charset=%s; method=PUBLISH", "%s; CHARSET=%s",
             "%s; Charset=%s", '%s; charset="%s"']
    for i in range(ctx.n(30, 600)):
        cs = rng.choice(list(words))
        book = rng.random() < 0.3
        text = words[cs]
        form = rng.choice(forms)
        if book:
            body = "BEGIN:VCARD\r\nVERSION:3.0\r\nUID:rc%d\r\nFN:%s\r\nN:%s;;;;\r\nEND:VCARD\r\n" % (i, text, text)
            ctype = form.replace("component=VEVENT", "profile=vcard") % ("text/vcard", cs if rng.random() < 0.8 else cs.upper())
            path, coll, mk = "/u/ab/rc.vcf", "/u/ab/", "MKCOL"
        else:
            body = ("BEGIN:VCALENDAR\r\nVERSION:2.0\r\nPRODID:x\r\nBEGIN:VEVENT\r\nUID:rc%d\r\nDTSTAMP:20240101T000000Z\r\nDTSTART:20240102T100000Z\r\n"
                    "SUMMARY:%s\r\nEND:VEVENT\r\nEND:VCALENDAR\r\n" % (i, text))
            ctype = form % ("text/calendar", cs if rng.random() < 0.8 else cs.upper())
            path, coll, mk = "/u/cal/rc.ics", "/u/cal/", "MKCALENDAR"
        with App({"auth": {"type": "none"}}) as app:
            if book:
                app.request("MKCOL", coll, '<?xml version="1.0"?><D:mkcol xmlns:D="DAV:" xmlns:CR="urn:ietf:params:xml:ns:carddav"><D:set><D:prop><D:resourcetype>'
                            '<D:collection/><CR:addressbook/></D:resourcetype></D:prop></D:set></D:mkcol>', login="u:pw")
            else:
                app.request("MKCALENDAR", coll, login="u:pw")
            st, _, _ = app.request("PUT", path, body.encode(cs), login="u:pw", CONTENT_TYPE=ctype)
            st2, _, served = app.request("GET", path, login="u:pw")
        case = {"content_type": ctype, "charset": cs, "text": text, "status": st}
        ctx.case("reqcharset:%s:%s" % (cs, "first" if form in forms[:2] else "later"), sample=case, key=["reqcharset", i], nontrivial=True)
        if st not in (201, 204):
            ctx.violation("an object sent in the declared charset %s was refused with %d" % (cs, st), case)
            continue
        unfolded = served.replace("\r\n ", "").replace("\r\n\t", "")
        if st2 != 200 or text not in unfolded:
            got = [l for l in unfolded.split("\r\n") if l.startswith(("SUMMARY", "FN"))]
            ctx.violation("text sent as %s (Content-Type %r) comes back as %r, sent was %r" % (cs, ctype, got, text), case)


def documented_cleanups_level(ctx):
    """the clean-ups the property allows, each on its own: exactly the documented edit is made and nothing else - and look-alikes that are
    not covered by it stay as they are (control characters; DURATION:PT0S beside DTEND; the data-URI prefix of a base-64 PHOTO)"""
    import base64 as b64
    photo = b64.b64encode(bytes(range(200)) * 2).decode()
    ev_head = ["BEGIN:VCALENDAR", "VERSION:2.0", "PRODID:-//verif c14//EN", "BEGIN:VEVENT", "UID:cu", "DTSTAMP:20240101T000000Z"]
    ev_tail = ["END:VEVENT", "END:VCALENDAR"]
    card = lambda extra: ["BEGIN:VCARD", "VERSION:3.0", "UID:cu", "FN:Clean Up", "N:Up;Clean;;;"] + extra + ["END:VCARD"]      # noqa: E731
    cases = [
        ("zero DURATION beside DTEND is dropped", False,
         ev_head + ["DTSTART:20240102T100000Z", "DTEND:20240102T110000Z", "DURATION:PT0S", "SUMMARY:s"] + ev_tail,
         ev_head + ["DTSTART:20240102T100000Z", "DTEND:20240102T110000Z", "SUMMARY:s"] + ev_tail),
        ("zero DURATION without DTEND stays", False,
         ev_head + ["DTSTART:20240102T100000Z", "DURATION:PT0S", "SUMMARY:s"] + ev_tail, None),
        ("DURATION:PT0S in the text of another property stays", False,
         ev_head + ["DTSTART:20240102T100000Z", "DTEND:20240102T110000Z", "SUMMARY:DURATION:PT0S", "DESCRIPTION:DTEND and DURATION:PT0S"] + ev_tail, None),
        ("control characters are removed, TAB stays", False,
         ev_head + ["DTSTART:20240102T100000Z", "SUMMARY:a\x01b\x08c\x0bd\x1fe\tf", "LOCATION:\x0cx"] + ev_tail,
         ev_head + ["DTSTART:20240102T100000Z", "SUMMARY:abcde\tf", "LOCATION:x"] + ev_tail),
        ("the data-URI prefix of a base-64 PHOTO is dropped", True,
         card(["PHOTO;ENCODING=b;TYPE=JPEG:data:image/jpeg;base64," + photo]), card(["PHOTO;ENCODING=b;TYPE=JPEG:" + photo])),
        ("a base-64 PHOTO without the prefix stays", True, card(["PHOTO;ENCODING=b;TYPE=JPEG:" + photo]), None),
        ("a NOTE that quotes such a PHOTO line stays", True, card(["NOTE:see PHOTO\\;ENCODING=b:data:image/jpeg\\;base64\\,AAAA"]), None),
        ("a PHOTO given as a link stays", True, card(["PHOTO;VALUE=uri:http://example.org/photos/cu.jpg"]), None),
        # URI values with a comma in them: the data: URIs of vCard 4.0 (RFC 6350 6.2.4), or any link with a comma (finding F33)
        ("a PHOTO given as a data URI (VALUE=uri) stays", True, card(["PHOTO;VALUE=uri:data:image/png;base64," + photo[:80]]), None),
        ("a vCard 4.0 PHOTO given as a data URI stays", True,
         ["BEGIN:VCARD", "VERSION:4.0", "UID:cu", "FN:Clean Up", "N:Up;Clean;;;", "PHOTO:data:image/jpeg;base64," + photo[:120], "END:VCARD"], None),
        ("a URL with a comma stays", True, card(["URL:http://example.org/map?ll=48.1,11.5"]), None),
        ("two nicknames stay two", True, card(["NICKNAME:Johnny,JD"]), None),
        ("a SOURCE with commas stays", True, card(["SOURCE:ldap://ldap.example.com/cn=Babs%20Jensen,%20o=Babsco,%20c=US"]), None),
        ("the geo: URI of an Apple structured location stays", False,
         ev_head + ["DTSTART:20240102T100000Z", "LOCATION:Marienplatz", "X-APPLE-STRUCTURED-LOCATION;VALUE=URI;X-TITLE=Marienplatz:geo:48.137154,11.576124", "SUMMARY:s"] + ev_tail, None),
        ("a CONFERENCE link with a comma stays", False,
         ev_head + ["DTSTART:20240102T100000Z", "CONFERENCE;VALUE=URI;LABEL=Call:https://chat.example.com/audio?id=1,2", "SUMMARY:s"] + ev_tail, None),
        ("an ATTACH link with a comma stays", False,
         ev_head + ["DTSTART:20240102T100000Z", "ATTACH:http://example.org/a,b;c.pdf", "URL:http://example.org/map?ll=48.1,11.5;z=3", "SUMMARY:s"] + ev_tail, None),
        # vCard 2.1 (legacy exports): type parameters written without "TYPE=" (finding F36: they are dropped)
        ("the bare type parameters of a vCard 2.1 TEL stay", True,
         ["BEGIN:VCARD", "VERSION:2.1", "UID:cu", "N:Up;Clean;;;", "FN:Clean Up", "TEL;HOME;VOICE:+1 555 0100", "END:VCARD"],
         ["BEGIN:VCARD", "VERSION:2.1", "UID:cu", "N:Up;Clean;;;", "FN:Clean Up", "TEL;TYPE=HOME,VOICE:+1 555 0100", "END:VCARD"]),
        # structured values of vCard 4.0 properties (finding F34: the separator comes back escaped, i.e. as part of the first component)
        ("a vCard 4.0 GENDER with identity text stays", True,
         ["BEGIN:VCARD", "VERSION:4.0", "UID:cu", "FN:Clean Up", "N:Up;Clean;;;", "GENDER:M;male", "END:VCARD"], None),
        ("a vCard 4.0 CLIENTPIDMAP stays", True,
         ["BEGIN:VCARD", "VERSION:4.0", "UID:cu", "FN:Clean Up", "N:Up;Clean;;;", "CLIENTPIDMAP:1;urn:uuid:3df403f4-5924-4bb7-b077-3c711d9eb34b", "END:VCARD"], None),
    ]
    for what, book, up_lines, want_lines in cases:
        want_lines = want_lines or up_lines
        body = "\r\n".join(up_lines) + "\r\n"
        with App({"auth": {"type": "none"}}) as app:
            if book:
                app.request("MKCOL", "/u/ab/", '<?xml version="1.0"?><D:mkcol xmlns:D="DAV:" xmlns:CR="urn:ietf:params:xml:ns:carddav"><D:set><D:prop><D:resourcetype>'
                            '<D:collection/><CR:addressbook/></D:resourcetype></D:prop></D:set></D:mkcol>', login="u:pw")
                path, ctype = "/u/ab/cu.vcf", "text/vcard"
            else:
                app.request("MKCALENDAR", "/u/cal/", login="u:pw")
                path, ctype = "/u/cal/cu.ics", "text/calendar"
            st, _, _ = app.request("PUT", path, body, login="u:pw", CONTENT_TYPE=ctype)
            st2, _, served = app.request("GET", path, login="u:pw")
            st3, _, _ = app.request("PUT", path, served, login="u:pw", CONTENT_TYPE=ctype) if st2 == 200 else (None, None, None)
            st4, _, again = app.request("GET", path, login="u:pw")
        case = {"clean_up": what, "upload": [ln[:100] for ln in up_lines[4:-1]], "status": st}
        ctx.case("cleanup:%s" % what, sample=case, key=["cleanup", what], nontrivial=True)
        if st != 201 or st2 != 200:
            ctx.violation("an object for the clean-up %r was not stored / served (%s, %s)" % (what, st, st2), case)
            continue
        got = canon(parse_content(served)[2][0]) if parse_content(served)[2] else None
        want = canon(parse_content("\r\n".join(want_lines) + "\r\n")[2][0])
        if got != want:
            diff = sorted(set(flatten(parse_content(served))) ^ set(flatten(parse_content("\r\n".join(want_lines) + "\r\n"))))
            # F33: vobject keeps only what precedes the first unescaped comma of a vCard value it takes for text (PHOTO / LOGO / KEY / URL ...)
            cut = [d for d in diff if d[1] not in IGNORED_PROPS]
            f33 = cut and all(d[1] in (("PHOTO", "LOGO", "KEY", "URL", "SOUND", "SOURCE", "NICKNAME") if book else
                                       ("X-APPLE-STRUCTURED-LOCATION", "CONFERENCE", "IMAGE")) for d in cut) and any("," in str(d[3]) for d in cut)
            # F34: ";" inside the value of a vCard 4.0 property vobject does not know as structured comes back as "\;"
            vals = sorted(str(d[3]) for d in cut)
            f34 = book and len(cut) == 2 and cut[0][1] == cut[1][1] and cut[0][1] in ("GENDER", "CLIENTPIDMAP", "TEL") and \
                vals[0] != vals[1] and vals[0].replace("\\;", ";") == vals[1].replace("\\;", ";")
            # F36: vCard 2.1 parameters without a name (TEL;HOME;VOICE) are dropped
            f36 = book and "VERSION:2.1" in up_lines and len(cut) == 2 and cut[0][1] == cut[1][1] and cut[0][3] == cut[1][3] and \
                any(not d[2] for d in cut)
            ctx.violation("clean-up %r: the served object is not the upload with exactly that edit; differing lines: %s"
                          % (what, [(d[0], d[1], str(d[3])[:60]) for d in cut][:6]), case,
                          finding="F33" if f33 else "F34" if f34 else "F36" if f36 else None)
            if f33 or f34 or f36:
                continue
        if st3 not in (201, 204) or again != served:
            ctx.violation("clean-up %r: the served object is not a fixed point of re-upload" % what, case)


def value_text_level(ctx):
    """vobject's value reader (`stringToTextValues`, element 0 is what the text behaviours keep) and writer (`backslashEscape`) against
    RadicaleModel/TextValue.lean, on strings of commas, semicolons, backslashes, escapes, quotes, line ends and ordinary text"""
    import logging
    from vobject.base import backslashEscape
    from vobject.icalendar import stringToTextValues
    if not ctx.driver:
        return
    rng = ctx.rng("textvalue")
    alph = list("ab,;\\nN\"\r\n :\u00e9=") + ["\\,", "\\;", "\\\\", "\\n", "\\x", "\\N", "\\\""]
    cases = ["".join(rng.choice(alph) for _ in range(rng.randint(0, 12))) for _ in range(ctx.n(1500, 40000))]
    cases += ["", "\\", "a\\", ",", ",,", "a,", ",a", "\\,", "\r\n", "\r", "\n\r", "geo:48.137154,11.576124", "data:image/jpeg;base64,AAEC", "M;male", "Johnny,JD"]
    ans = ctx.driver.ask([{"m": "fold", "op": "textvalue", "s": chars(c)} for c in cases])
    lg = logging.getLogger()
    old = lg.level
    lg.setLevel(logging.CRITICAL)
    try:
        for c, a in zip(cases, ans):
            real_values = stringToTextValues(c)
            real_escaped = backslashEscape(c)
            ctx.case("textvalue:%s" % ("list" if len(real_values) > 1 else "escapes" if "\\" in c else "plain"), sample={"value": c, "read": real_values},
                     key=["textvalue", c], nontrivial=len(real_values) > 1 or "\\" in c)
            if [unchars(v) for v in a["values"]] != real_values:
                ctx.disagree("vobject stringToTextValues vs model readValues", {"value": c}, real_values, [unchars(v) for v in a["values"]])
            if unchars(a["escaped"]) != real_escaped:
                ctx.disagree("vobject backslashEscape vs model escape", {"value": c}, real_escaped, unchars(a["escaped"]))
            # oracle on the implementation alone: what is written is read back (line ends as LF)
            back = stringToTextValues(real_escaped)
            if back != [c.replace("\r\n", "\n").replace("\r", "\n")]:
                ctx.violation("a value written by the serialiser is not read back: %r -> %r -> %r" % (c, real_escaped, back), {"value": c})
    finally:
        lg.setLevel(old)


def charset_label_level(ctx):
    """which charset `decode_request` tries first for a Content-Type header (parameter in any position, any letter case, quoted, padded,
    repeated, absent) against RadicaleModel/Charset.lean; observed with a byte string that records the codecs it is asked to decode with"""
    from radicale import config, httputils
    if not ctx.driver:
        return
    rng = ctx.rng("charsetlabel")
    conf = config.load()

    class Spy(bytes):
        tried = []

        def decode(self, cs, *a):
            Spy.tried.append(cs)
            raise UnicodeDecodeError("spy", b"", 0, 1, "recording only")
    medias = ["text/calendar", "text/vcard", "application/xml", "TEXT/XML", ""]
    names = ["charset", "Charset", "CHARSET", "x-charset", "charse", "chars"]
    labels = ["utf-8", "UTF-8", "iso-8859-1", "ISO-8859-2", "windows-1252", '"utf-8"', " latin1 ", "", "koi8-r"]
    cases = []
    for _ in range(ctx.n(300, 6000)):
        parts = [rng.choice(medias)]
        for _ in range(rng.randint(0, 3)):
            k = rng.random()
            if k < 0.5:
                parts.append("%s=%s" % (rng.choice(names), rng.choice(labels)))
            else:
                parts.append(rng.choice(["component=VEVENT", "method=PUBLISH", "profile=vcard", "x=charset", "q=0.5", "boundary=\"a;charset=b\""]))
        cases.append(rng.choice(["; ", ";", " ; "]).join(parts))
    ans = ctx.driver.ask([{"m": "fold", "op": "charset", "s": chars(c), "fixed": True} for c in cases])
    for ct, a in zip(cases, ans):
        Spy.tried = []
        try:
            httputils.decode_request(conf, {"CONTENT_TYPE": ct} if ct else {}, Spy(b"x"))
        except UnicodeDecodeError:
            pass
        tried = list(Spy.tried)
        model_label = None if a["label"] is None else unchars(a["label"])
        # the candidates after the label are the configured request encoding (utf-8), utf-8 and iso8859-1, duplicates removed
        expect = [x for i, x in enumerate(([model_label] if model_label is not None else []) + ["utf-8", "utf-8", "iso8859-1"])
                  if x not in (([model_label] if model_label is not None else []) + ["utf-8", "utf-8", "iso8859-1"])[:i]]
        ctx.case("charsetlabel:%s" % ("none" if model_label is None else "label"), sample={"content_type": ct, "tried": tried}, key=["charsetlabel", ct],
                 nontrivial=model_label is not None)
        if tried != expect:
            ctx.disagree("codecs tried by decode_request vs model Charset.label", {"content_type": ct}, tried, expect)


def witnesses(ctx):
    """the two unsafe shapes, on the running server: served content is not a fixed point"""
    shapes = {"F5": "DESCRIPTION:a" + " " * 150 + "b",
              "F24": "DESCRIPTION:see quoted-printable spec " + "x" * 36 + "=" + "tail of the text that continues here"}
    for fid, line in shapes.items():
        body = ("BEGIN:VCALENDAR\r\nVERSION:2.0\r\nPRODID:x\r\nBEGIN:VEVENT\r\nUID:w%s\r\nDTSTAMP:20240101T000000Z\r\nDTSTART:20240102T100000Z\r\n"
                "%s\r\nEND:VEVENT\r\nEND:VCALENDAR\r\n" % (fid, line))
        with App({"auth": {"type": "none"}}) as app:
            app.request("MKCALENDAR", "/u/c/", login="u:pw")
            st, hd, _ = app.request("PUT", "/u/c/w.ics", body, login="u:pw", CONTENT_TYPE="text/calendar")
            st1, hd1, served = app.request("GET", "/u/c/w.ics", login="u:pw")
            st2, hd2, _ = app.request("PUT", "/u/c/w2.ics", served.replace("UID:w%s" % fid, "UID:v%s" % fid), login="u:pw", CONTENT_TYPE="text/calendar")
            st3, hd3, served2 = app.request("GET", "/u/c/w2.ics", login="u:pw") if st2 in (201, 204) else (None, {}, "")
        case = {"line": line[:60] + "...", "put": st, "get": st1, "re-upload": st2}
        ctx.case("witness:%s" % fid, sample=case, key=fid, nontrivial=True)
        same = st2 in (201, 204) and served2.replace("UID:v%s" % fid, "UID:w%s" % fid) == served
        if st in (201, 204) and st1 == 200 and not same:
            ctx.violation("an accepted object is not a fixed point: re-uploading what GET served %s" % (
                "is refused with %s" % st2 if st2 not in (201, 204) else "stores different content"), case, finding=fid)


def run(ctx):
    ctx.extra["rule"] = ("(a) generated logical lines (lengths around 75/150, blank runs incl. NBSP / EM SPACE, '=' at fold boundaries with and "
                         "without 'quoted-printable', non-ASCII) and sequences of them; (b) objects from the grammar: VEVENT/VTODO/VJOURNAL with "
                         "VALARM, VTIMEZONE, RRULE/EXDATE/RDATE, overrides, DATE / DATE-TIME / TZID, escaped and long and non-ASCII text, quoted "
                         "and multi-valued parameters, X- properties, vCard 3.0/4.0, CRLF or LF; (c) whole calendars / address books of 1-5 "
                         "objects, 30 % with UIDs whose file names coincide; (d) the naming loop of bulk uploads on UID lists with coinciding, unusable "
                         "and digest-like names against the BulkNames model; non-trivial = folding or non-ASCII involved")
    ctx.trusted += ["harness/props/c14.py: independent content-line parser and comparison", "vobject's value typing and dateutil (exercised, not modelled)"]
    ctx.assumptions += ["canonical value spellings in the grammar (e.g. PT1H, not PT60M): vobject re-serialises typed values",
                        "PRODID / VERSION of the VCALENDAR wrapper are not compared"]
    if ctx.driver:
        fold_level(ctx)
    object_level(ctx)
    collection_level(ctx)
    individual_export_level(ctx)
    stock_encoding_level(ctx)
    bulk_names_level(ctx)
    date_list_quirk_level(ctx)
    request_charset_level(ctx)
    documented_cleanups_level(ctx)
    value_text_level(ctx)
    charset_label_level(ctx)
    # what was stored comes back also where the file system keeps whole seconds only and the item cache is keyed by size and time stamp
    # (several uploads of one name in one tick): the level lives with the cache property
    from props.c13 import coarse_clock_level
    coarse_clock_level(ctx, prop="C14")
    witnesses(ctx)
