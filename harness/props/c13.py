"""C13 — the item cache never changes what clients see.

Theorems: lean/Props/C13.lean (every history of requests, external edits, restarts under the other keying mode and
cache manipulations answers like the cache-free reference; hash keys identify bytes; entries of the other mode are
inert; an externally replaced file is served with its new content).
Tie, two ways:
 (a) paired runs: the same request history (PUT, GET, DELETE, MOVE inside / across / over existing names, whole
     collection PUT, calendar-query with calendar-data, PROPFIND, external edits of item files) on a reference
     application that is left alone and on an application under test whose cache is wiped / has single entries
     removed / gets older or foreign entries planted / is restarted under the other keying mode / keeps its cache
     in the sub-folder layout - every response (status, ETag, body, listing with ETags and data) must be equal;
 (b) the application under test is also compared with the compiled model: per item read the content served and
     whether the cache was used (hit / miss, from Radicale's own cache debug log).
Known finding F5 (an item vobject cannot re-read after folding) is replayed as a witness.
"""
import hashlib
import logging
import os
import pickle
import re
import shutil
import xml.etree.ElementTree as ET

from common import App

PROP_FILES = ["Props/C13.lean"]
LEVEL = "proof"

NS = {"D": "DAV:", "C": "urn:ietf:params:xml:ns:caldav"}
QUERY = ('<?xml version="1.0"?><C:calendar-query xmlns:D="DAV:" xmlns:C="urn:ietf:params:xml:ns:caldav"><D:prop><D:getetag/>'
         '<C:calendar-data/></D:prop><C:filter><C:comp-filter name="VCALENDAR"/></C:filter></C:calendar-query>')
PROPFIND = '<?xml version="1.0"?><D:propfind xmlns:D="DAV:"><D:prop><D:getetag/></D:prop></D:propfind>'
# calendar-query with a time-range: the cache entry also holds the object's enclosing time range, which the storage layer's
# pre-selection works from (all generated events lie on 2024-01-02 10:00-11:00)
TIME_RANGES = ['start="20240103T000000Z"', 'start="20240101T000000Z"', 'end="20240101T000000Z"', 'end="20240103T000000Z"',
               'start="20240102T090000Z" end="20240102T103000Z"', 'start="20240102T110000Z" end="20240102T120000Z"',
               'start="20240102T105959Z"', 'end="20240102T100000Z"']


def query_tr(tr):
    return ('<?xml version="1.0"?><C:calendar-query xmlns:D="DAV:" xmlns:C="urn:ietf:params:xml:ns:caldav"><D:prop><D:getetag/>'
            '<C:calendar-data/></D:prop><C:filter><C:comp-filter name="VCALENDAR"><C:comp-filter name="VEVENT"><C:time-range %s/>'
            '</C:comp-filter></C:comp-filter></C:filter></C:calendar-query>' % tr)

STOCK = ["utf-8"]          # the storage encoding of the pair under test (both sides and the scratch application)

HREFS = ["a.ics", "b.ics", "c.ics", "d.ics"]
UIDS = ["u1", "u2", "u3", "u4", "u5"]


def ev(uid, variant, pad=""):
    return ("BEGIN:VCALENDAR\r\nVERSION:2.0\r\nPRODID:-//verif//EN\r\nBEGIN:VEVENT\r\nUID:%s\r\nDTSTAMP:20240101T000000Z\r\n"
            "DTSTART:20240102T100000Z\r\nDTEND:20240102T110000Z\r\nSUMMARY:v%d caf\u00e9%s\r\nEND:VEVENT\r\nEND:VCALENDAR\r\n" % (uid, variant, pad))


def cal(objs):
    return ("BEGIN:VCALENDAR\r\nVERSION:2.0\r\nPRODID:-//verif//EN\r\n" + "".join(
        "BEGIN:VEVENT\r\nUID:%s\r\nDTSTAMP:20240101T000000Z\r\nDTSTART:20240102T100000Z\r\nDTEND:20240102T110000Z\r\nSUMMARY:v%d caf\u00e9\r\nEND:VEVENT\r\n"
        % (u, v) for u, v in objs) + "END:VCALENDAR\r\n")


class LogTap(logging.Handler):
    def __init__(self):
        super().__init__(logging.DEBUG)
        self.events = []

    def emit(self, record):
        try:
            msg = record.getMessage()
        except Exception:
            return
        m = re.match(r"Item cache (hit|miss)\s+for: '(.*)'", msg)
        if m:
            self.events.append((os.path.basename(m.group(2)), m.group(1), os.path.basename(os.path.dirname(m.group(2)))))


class Side:
    """one application (reference or under test) with two calendars"""

    def __init__(self, mode_stat, item_sub, tap=None):
        self.mode_stat = mode_stat
        self.item_sub = item_sub
        self.tap = tap
        self.app = App(self.conf())
        for c in ("c", "d"):
            st, _, _ = self.app.request("MKCALENDAR", "/u/%s/" % c, login="u:pw")
            assert st == 201

    def conf(self):
        return {"storage": {"use_mtime_and_size_for_item_cache": str(self.mode_stat), "use_cache_subfolder_for_item": str(self.item_sub)},
                "logging": {"storage_cache_actions_on_debug": "True"}, "auth": {"type": "none"}, "encoding": {"stock": STOCK[0]}}

    def restart(self, mode_stat):
        self.mode_stat = mode_stat
        self.app.configure(self.conf())

    def close(self):
        self.app.close()

    def request(self, *a, **kw):
        import radicale.log
        lg = radicale.log.logger
        if self.tap is not None:
            self.tap.events = []
            lg.addHandler(self.tap)
            old = lg.level
            lg.setLevel(logging.DEBUG)
        try:
            return self.app.request(*a, **kw)
        finally:
            if self.tap is not None:
                lg.removeHandler(self.tap)
                lg.setLevel(old)

    def coll_dir(self, c):
        return os.path.join(self.app.folder, "collection-root", "u", c)

    def cache_dir(self, c):
        base = "collection-cache" if self.item_sub else "collection-root"
        return os.path.join(self.app.folder, base, "u", c, ".Radicale.cache", "item")

    def files(self, c):
        d = self.coll_dir(c)
        out = {}
        for n in os.listdir(d):
            p = os.path.join(d, n)
            if os.path.isfile(p) and not n.startswith(".Radicale"):
                s = os.stat(p)
                out[n] = (open(p, "rb").read(), s.st_size, s.st_mtime_ns)
        return out


def observe(method, st, hd, text):
    """what a client sees, without time stamps"""
    o = {"status": st}
    if method == "GET":
        o["etag"] = hd.get("ETag")
        o["body"] = text if st == 200 else None
    elif method in ("PUT", "DELETE", "MOVE"):
        o["etag"] = hd.get("ETag")
    elif method == "REPORT" and st == 200:
        o["body"] = "\n".join(sorted(ln for ln in text.split("\r\n") if not ln.startswith(("DTSTAMP", "PRODID"))))       # (free-busy answer)
    elif st == 207:
        root = ET.fromstring(text)
        rows = []
        for r in root.findall("D:response", NS):
            href = r.find("D:href", NS).text
            et = r.find("D:propstat/D:prop/D:getetag", NS)
            data = r.find("D:propstat/D:prop/C:calendar-data", NS)
            s = r.find("D:status", NS)
            rows.append((href, et.text if et is not None else None, data.text if data is not None else None,
                         s.text if s is not None else None))
        o["rows"] = sorted(rows, key=lambda x: x[0])
    return o


class Pair:
    def __init__(self, ctx, rng):
        self.ctx = ctx
        self.rng = rng
        self.tap = LogTap()
        STOCK[0] = rng.choice(["utf-8", "utf-8", "iso-8859-1"])
        self.ref = Side(False, False)
        self.sut = Side(rng.random() < 0.5, rng.random() < 0.4, self.tap)
        self.log = []
        self.ops = []              # model ops for the application under test
        self.expect = []           # per model answer: (derived id or None, lookup or None)
        self.content_ids = {}
        self.derived_ids = {}
        self.parse_tbl = {}
        self.up_tbl = {}
        self.href_ids = {}
        self.saved_entries = []    # raw cache entry files seen earlier: (bytes, from-href)
        self.mode0 = "stat" if self.sut.mode_stat else "hash"
        self.scratch = None
        self.ok = True

    def close(self):
        self.ref.close()
        self.sut.close()
        if self.scratch:
            self.scratch.close()

    def hid(self, h):
        return self.href_ids.setdefault(h, len(self.href_ids) + 1)

    def cid(self, raw):
        if raw not in self.content_ids:
            self.content_ids[raw] = len(self.content_ids) + 1
            self.parse_tbl[self.content_ids[raw]] = self.parse_real(raw)
        return self.content_ids[raw]

    def did(self, etag, text):
        # (XML transport normalises line ends)
        return self.derived_ids.setdefault((etag, (text or "").replace("\r\n", "\n")), len(self.derived_ids) + 1)

    def parse_real(self, raw):
        """what a server with an empty cache derives from these bytes (observed on a scratch application)"""
        if self.scratch is None:
            self.scratch = App({"auth": {"type": "none"}, "encoding": {"stock": STOCK[0]}})
            st, _, _ = self.scratch.request("MKCALENDAR", "/u/s/", login="u:pw")
        d = os.path.join(self.scratch.folder, "collection-root", "u", "s")
        shutil.rmtree(os.path.join(d, ".Radicale.cache"), ignore_errors=True)
        p = os.path.join(d, "x.ics")
        with open(p, "wb") as f:
            f.write(raw)
        st, hd, text = self.scratch.request("GET", "/u/s/x.ics", login="u:pw")
        os.unlink(p)
        if st != 200:
            return None
        return self.did(hd.get("ETag"), text)

    def file_json(self, raw, size, mtime):
        return {"c": self.cid(raw), "size": size, "mtime": mtime}

    def entry_of(self, raw_entry):
        """(key json, derived id) of a cache entry file"""
        try:
            t = pickle.loads(raw_entry)
            k, uid, etag, text = t[0], t[1], t[2], t[3]
        except Exception:
            return None
        if isinstance(k, str) and "size=" in k:
            m = re.search(r"size=(\d+);mtime=(\d+)", k)
            key = {"kind": "s", "size": int(m.group(1)), "mtime": int(m.group(2))}
        else:
            from radicale import storage
            c = None
            for raw, i in self.content_ids.items():
                if hashlib.sha256(storage.CACHE_VERSION + raw).hexdigest() == k:
                    c = i
            if c is None:
                return None
            key = {"kind": "h", "c": c}
        return key, self.did(etag, text)

    def remember_entries(self, c):
        d = self.sut.cache_dir(c)
        if os.path.isdir(d):
            for n in os.listdir(d):
                try:
                    raw = open(os.path.join(d, n), "rb").read()
                except OSError:
                    continue
                if (raw, n) not in self.saved_entries:
                    self.saved_entries.append((raw, n))
            self.saved_entries = self.saved_entries[-40:]

    def reads(self, events, served=None, drop_last_of=None):
        """every item read the server logged becomes a model `get`; `served` = {(coll, href): derived id} where the
        client saw the content; `drop_last_of` = (coll, href) whose last read belongs to the upload itself"""
        evs = [e for e in events if e[2] in ("c", "d")]
        if drop_last_of is not None:
            idx = [i for i, e in enumerate(evs) if (e[2], e[0]) == drop_last_of]
            if idx:
                evs.pop(idx[-1])
        for href, kind, coll in evs:
            self.ops.append({"op": "get", "coll": 0 if coll == "c" else 1, "h": self.hid(href)})
            if served is not None and (coll, href) in served:
                self.expect.append(("get", served[(coll, href)], kind, href))
            else:
                self.expect.append(("get-lookup", None, kind, href))

    def ops_for_upload_prefix(self, ci, cname, href, raw, size, mt):
        """model ops for an object uploaded by the prefix and then touched: upload (entry from the uploader) + edit"""
        ce = os.path.join(self.sut.cache_dir(cname), href)
        c = self.cid(raw)
        ent = self.entry_of(open(ce, "rb").read()) if os.path.exists(ce) else None
        if ent:
            self.up_tbl[c] = ent[1]
        # the entry was written for the stat the file had at upload time; the file now has another mtime
        key = ent[0] if ent else None
        if key and key.get("kind") == "s":
            self.ops.append({"op": "upload", "coll": ci, "h": self.hid(href), "f": {"c": c, "size": key["size"], "mtime": key["mtime"]}})
        else:
            self.ops.append({"op": "upload", "coll": ci, "h": self.hid(href), "f": self.file_json(raw, size, mt)})
        self.expect.append(("upload", None, None))
        self.ops.append({"op": "edit", "coll": ci, "h": self.hid(href), "f": self.file_json(raw, size, mt)})

    # ---- a client request on both sides ---------------------------------------------------------------------
    def both(self, method, path, body=None, **env):
        r1 = observe(method, *self.ref.request(method, path, body, login="u:pw", **env))
        r2 = observe(method, *self.sut.request(method, path, body, login="u:pw", **env))
        events = list(self.tap.events)
        self.log.append([method, path, env.get("HTTP_DESTINATION", ""), r2["status"]])
        if r1 != r2:
            diff = {k: (r1.get(k), r2.get(k)) for k in set(r1) | set(r2) if r1.get(k) != r2.get(k)}
            self.ctx.violation("%s %s is answered differently when the cache was tampered with: %s" % (method, path, str(diff)[:400]),
                               {"mode": "mtime+size" if self.sut.mode_stat else "hash", "item_subfolder": self.sut.item_sub, "log": self.log[-50:]},
                               finding=None)
            self.ok = False
        return r2, events


def twins_prefix(p, rng):
    """two objects with one UID in two calendars, whose files have the same size and the same mtime (a file system
    with coarse time stamps, a restore): both are read (entries keyed by size+mtime exist), then one is MOVEd over the
    other.  The entry of the overwritten file must not be served for the moved one."""
    uid = rng.choice(UIDS)
    a, b = rng.choice(HREFS), rng.choice(HREFS)
    p.both("PUT", "/u/c/" + a, ev(uid, 1), CONTENT_TYPE="text/calendar")
    p.both("PUT", "/u/d/" + b, ev(uid, 2), CONTENT_TYPE="text/calendar")
    t = 1_700_000_000_000_000_000 + rng.randrange(1000) * 10**9
    for side in (p.ref, p.sut):
        for c, h in (("c", a), ("d", b)):
            fp = os.path.join(side.coll_dir(c), h)
            if os.path.exists(fp):
                os.utime(fp, ns=(t, t))
    for ci, c, h in ((0, "c", a), (1, "d", b)):
        fs = p.sut.files(c)
        if h in fs:
            raw, size, mt = fs[h]
            p.ops_for_upload_prefix(ci, c, h, raw, size, mt)
    for path in ("/u/c/" + a, "/u/d/" + b):
        r, events = p.both("GET", path)
        p.reads(events)
    r, events = p.both("MOVE", "/u/c/" + a, HTTP_DESTINATION="http://127.0.0.1/u/d/" + b, HTTP_OVERWRITE="T")
    p.reads(events)
    if r["status"] in (201, 204):
        p.ops.append({"op": "xmove", "coll": 0, "h": p.hid(a), "to": p.hid(b)})
    r, events = p.both("GET", "/u/d/" + b)
    p.reads(events)
    p.log.append(["TWINS", a, b])


def run_history(ctx, rng, hid, length):
    p = Pair(ctx, rng)
    try:
        if rng.random() < 0.35:
            twins_prefix(p, rng)
        for step in range(length):
            if not p.ok:
                break
            cname = rng.choice(["c", "c", "d"])
            ci = 0 if cname == "c" else 1
            other = "d" if cname == "c" else "c"
            base = "/u/%s/" % cname
            k = rng.random()
            nontrivial = False
            if k < 0.2:
                href = rng.choice(HREFS)
                if rng.random() < 0.1:
                    # an object of the other kind (a contact into a calendar): refused on both sides - and if it were accepted, it would have
                    # to be there with the cache and without it alike
                    r, events = p.both("PUT", base + href, "BEGIN:VCARD\r\nVERSION:3.0\r\nUID:%s\r\nFN:wrong kind\r\nN:k;;;;\r\nEND:VCARD\r\n" % rng.choice(UIDS),
                                       CONTENT_TYPE="text/vcard")
                else:
                    r, events = p.both("PUT", base + href, ev(rng.choice(UIDS), rng.randint(1, 3)), CONTENT_TYPE="text/calendar")
                if r["status"] in (201, 204):
                    p.reads(events, drop_last_of=(cname, href))
                    raw, size, mt = p.sut.files(cname)[href]
                    # what the uploader stored in the cache
                    ce = os.path.join(p.sut.cache_dir(cname), href)
                    c = p.cid(raw)
                    ent = p.entry_of(open(ce, "rb").read()) if os.path.exists(ce) else None
                    if ent:
                        p.up_tbl[c] = ent[1]
                    p.ops.append({"op": "upload", "coll": ci, "h": p.hid(href), "f": p.file_json(raw, size, mt)})
                    p.expect.append(("upload", None, None))
                else:
                    p.reads(events)
            elif k < 0.42:
                href = rng.choice(HREFS)
                r, events = p.both("GET", base + href)
                d = p.did(r["etag"], r["body"]) if r["status"] == 200 else None
                if any(e[0] == href and e[2] == cname for e in events):
                    p.reads(events, served={(cname, href): d})
                else:
                    p.reads(events)
                    p.ops.append({"op": "get", "coll": ci, "h": p.hid(href)})
                    p.expect.append(("get", d, None, href))
                nontrivial = True
            elif k < 0.5:
                r, events = p.both("REPORT", base, QUERY if rng.random() < 0.5 else query_tr(rng.choice(TIME_RANGES)))
                served = {}
                if r["status"] == 207:
                    for row in r["rows"]:
                        served[(cname, row[0].rsplit("/", 1)[1])] = p.did(row[1], row[2]) if row[1] else None
                p.reads(events, served=served)
                nontrivial = True
            elif k < 0.54:
                # the other ways of reading a collection: listing, whole-collection export, sync-collection, multiget with data, free-busy
                way = rng.choice(["propfind", "propfind", "export", "sync", "multiget", "freebusy"])
                if way == "propfind":
                    r, events = p.both("PROPFIND", base, PROPFIND, HTTP_DEPTH="1")
                elif way == "export":
                    r, events = p.both("GET", base)
                elif way == "sync":
                    r, events = p.both("REPORT", base, '<?xml version="1.0"?><D:sync-collection xmlns:D="DAV:"><D:sync-token/><D:prop><D:getetag/></D:prop>'
                                       '</D:sync-collection>')
                elif way == "multiget":
                    r, events = p.both("REPORT", base, '<?xml version="1.0"?><C:calendar-multiget xmlns:D="DAV:" xmlns:C="urn:ietf:params:xml:ns:caldav"><D:prop>'
                                       '<D:getetag/><C:calendar-data/></D:prop>%s</C:calendar-multiget>' % "".join("<D:href>%s%s</D:href>" % (base, h) for h in HREFS))
                else:
                    r, events = p.both("REPORT", base, '<?xml version="1.0"?><C:free-busy-query xmlns:C="urn:ietf:params:xml:ns:caldav">'
                                       '<C:time-range start="20000101T000000Z" end="20500101T000000Z"/></C:free-busy-query>')
                p.reads(events)
                nontrivial = way != "propfind"
            elif k < 0.6:
                href = rng.choice(HREFS)
                r, events = p.both("DELETE", base + href)
                p.reads(events)
                if r["status"] in (200, 204):
                    p.ops.append({"op": "delete", "coll": ci, "h": p.hid(href)})
            elif k < 0.7:
                present = sorted(p.sut.files(cname))
                if present:
                    src = rng.choice(present)
                    dst = rng.choice(HREFS)
                    if rng.random() < 0.6:
                        r, events = p.both("MOVE", base + src, HTTP_DESTINATION="http://127.0.0.1" + base + dst, HTTP_OVERWRITE="T")
                        p.reads(events)
                        if r["status"] in (201, 204):
                            p.ops.append({"op": "move", "coll": ci, "h": p.hid(src), "to": p.hid(dst)})
                    else:
                        r, events = p.both("MOVE", base + src, HTTP_DESTINATION="http://127.0.0.1/u/%s/%s" % (other, dst), HTTP_OVERWRITE="T")
                        p.reads(events)
                        if r["status"] in (201, 204):
                            p.ops.append({"op": "xmove", "coll": ci, "h": p.hid(src), "to": p.hid(dst)})
            elif k < 0.74:
                objs = [(u, rng.randint(1, 3)) for u in rng.sample(UIDS, rng.randint(0, 3))]
                r, events = p.both("PUT", base, cal(objs), CONTENT_TYPE="text/calendar")
                if r["status"] not in (201, 204):
                    p.reads(events)
                if r["status"] in (201, 204):
                    fs = p.sut.files(cname)
                    items = []
                    for href, (raw, size, mt) in sorted(fs.items()):
                        ce = os.path.join(p.sut.cache_dir(cname), href)
                        p.cid(raw)
                        ent = p.entry_of(open(ce, "rb").read()) if os.path.exists(ce) else None
                        if ent:
                            p.up_tbl[p.cid(raw)] = ent[1]
                        items.append({"h": p.hid(href), "f": p.file_json(raw, size, mt)})
                    p.ops.append({"op": "replace", "coll": ci, "items": items, "sub": p.sut.item_sub})
                    p.reads(events)          # the new members are read (from their fresh entries) for the answer
            elif k < 0.82:
                # the file is replaced by other means (same bytes on both sides)
                href = rng.choice(HREFS)
                q = rng.random()
                if q < 0.6:
                    raw = ev(rng.choice(UIDS), rng.randint(1, 3), pad=rng.choice(["", "", " x", "  "])).encode(STOCK[0])
                elif q < 0.8:
                    raw = b"BEGIN:VCALENDAR\r\nthis is not an item\r\n"
                else:
                    raw = None
                keep_time = rng.random() < 0.3       # a tool that keeps time stamps (cp -p, rsync -t): then the size has to give it away
                fp_sut = os.path.join(p.sut.coll_dir(cname), href)
                if keep_time and raw is not None and q < 0.6 and os.path.exists(fp_sut) and os.stat(fp_sut).st_size == len(raw):
                    raw = ev(rng.choice(UIDS), rng.randint(1, 3), pad=" kept-time-other-size").encode(STOCK[0])
                for side in (p.ref, p.sut):
                    fp = os.path.join(side.coll_dir(cname), href)
                    if raw is None:
                        if os.path.exists(fp):
                            os.unlink(fp)
                    else:
                        old_st = os.stat(fp) if os.path.exists(fp) else None
                        old = old_st.st_mtime_ns if old_st else 0
                        with open(fp, "wb") as f:
                            f.write(raw)
                        new = os.stat(fp).st_mtime_ns
                        if keep_time and old_st is not None and old_st.st_size != len(raw):
                            os.utime(fp, ns=(old, old))
                        elif new <= old:
                            os.utime(fp, ns=(old + 1000, old + 1000))      # an edit changes the mtime
                p.log.append(["EDIT", cname, href, "removed" if raw is None else ("broken" if b"not an item" in raw else "item"),
                              "mtime kept" if keep_time and raw is not None else ""])
                if raw is None:
                    p.ops.append({"op": "edit", "coll": ci, "h": p.hid(href), "f": None})
                else:
                    s = os.stat(os.path.join(p.sut.coll_dir(cname), href))
                    p.ops.append({"op": "edit", "coll": ci, "h": p.hid(href), "f": p.file_json(raw, s.st_size, s.st_mtime_ns)})
            elif k < 0.86:
                p.remember_entries(cname)
                shutil.rmtree(p.sut.cache_dir(cname), ignore_errors=True)
                p.log.append(["WIPE", cname])
                p.ops.append({"op": "wipe", "coll": ci})
            elif k < 0.9:
                href = rng.choice(HREFS)
                p.remember_entries(cname)
                fp = os.path.join(p.sut.cache_dir(cname), href)
                if os.path.exists(fp):
                    os.unlink(fp)
                p.log.append(["DROP", cname, href])
                p.ops.append({"op": "drop", "coll": ci, "h": p.hid(href)})
            elif k < 0.96:
                # an entry left over from earlier content (of this or another name, of either keying mode)
                p.remember_entries(cname)
                p.remember_entries(other)
                if p.saved_entries:
                    raw_entry, frm = rng.choice(p.saved_entries)
                    ent = p.entry_of(raw_entry)
                    href = frm if rng.random() < 0.7 else rng.choice(HREFS)
                    if ent:
                        os.makedirs(p.sut.cache_dir(cname), exist_ok=True)
                        with open(os.path.join(p.sut.cache_dir(cname), href), "wb") as f:
                            f.write(raw_entry)
                        p.log.append(["PLANT", cname, href, "entry of " + frm])
                        p.ops.append({"op": "plant", "coll": ci, "h": p.hid(href), "key": ent[0], "d": ent[1]})
            else:
                p.remember_entries("c")
                p.remember_entries("d")
                p.sut.restart(not p.sut.mode_stat)
                p.log.append(["RESTART", "mtime+size" if p.sut.mode_stat else "hash"])
                p.ops.append({"op": "mode", "mode": "stat" if p.sut.mode_stat else "hash"})
            last = p.log[-1] if p.log else ["-"]
            ctx.case("%s:%s" % ("stat" if p.sut.mode_stat else "hash", last[0]), sample={"last": last}, key=[hid, step],
                     nontrivial=nontrivial and any(x[0] in ("WIPE", "DROP", "PLANT", "RESTART", "EDIT") for x in p.log))
        # correspondence of the application under test with the model
        if ctx.driver and p.ok:
            req = {"m": "cache", "mode": p.mode0, "parse": [[c, d] for c, d in p.parse_tbl.items() if d is not None],
                   "up": [[c, d] for c, d in p.up_tbl.items()], "ops": p.ops}
            ans = ctx.driver.ask1(req)["r"]
            if len(ans) != len(p.expect):
                ctx.disagree("cache history vs model: number of answers", {"log": p.log[-60:]}, len(p.expect), len(ans))
            else:
                for i, (e, a) in enumerate(zip(p.expect, ans)):
                    if e[0] == "upload":
                        continue
                    real = {"d": e[1], "lookup": e[2]}
                    model = {"d": a["d"], "lookup": {"hit": "hit", "miss": "miss", "broken": "miss"}.get(a["lookup"])}
                    if e[0] == "get-lookup":
                        real.pop("d")
                        model.pop("d")
                    if real != model:
                        ctx.disagree("item read vs model (content served, cache hit/miss)",
                                     {"mode0": p.mode0, "item_subfolder": p.sut.item_sub, "log": p.log[-60:], "href": e[3], "answer_index": i,
                                      "ops": p.ops[-40:]}, real, model)
                        break
    finally:
        p.close()


F5_BODY = ("BEGIN:VCALENDAR\r\nVERSION:2.0\r\nPRODID:x\r\nBEGIN:VEVENT\r\nUID:f5\r\nDTSTAMP:20240101T000000Z\r\nDTSTART:20240102T100000Z\r\n"
           "DESCRIPTION:a" + " " * 150 + "b\r\nEND:VEVENT\r\nEND:VCALENDAR\r\n")


def witness_f5(ctx):
    """an item whose folded form vobject cannot read back: served from the cache, gone without it"""
    with App({"auth": {"type": "none"}}) as app:
        app.request("MKCALENDAR", "/u/c/", login="u:pw")
        st, _, _ = app.request("PUT", "/u/c/f5.ics", F5_BODY, login="u:pw", CONTENT_TYPE="text/calendar")
        st1, _, _ = app.request("GET", "/u/c/f5.ics", login="u:pw")
        shutil.rmtree(os.path.join(app.folder, "collection-root", "u", "c", ".Radicale.cache"), ignore_errors=True)
        st2, _, _ = app.request("GET", "/u/c/f5.ics", login="u:pw")
    case = {"put": st, "get_with_cache": st1, "get_after_cache_removed": st2}
    ctx.case("witness:F5", sample=case, key="F5", nontrivial=True)
    if st in (201, 204) and st1 == 200 and st2 != 200:
        ctx.violation("an item with a long run of blanks (PUT %d) is served from the cache (GET %d) and is gone once the cache is "
                      "removed (GET %d)" % (st, st1, st2), case, finding="F5")


def external_replacement_level(ctx):
    """the second sentence of the property on its own, for both keying modes and cache locations: an item is stored and read (its cache
    entry exists), its file is replaced by other means while no request runs - with a new or the *same* modification time, the same or
    another size - and the next read (GET, multiget REPORT, PROPFIND getetag) shows the new content and a new ETag"""
    import itertools
    from common import parse_multistatus
    rng = ctx.rng("external")
    kinds = ["new-mtime-same-size", "new-mtime-other-size", "kept-mtime-other-size", "older-mtime-other-size", "one-ns-later-same-size"]
    # content-hash keying promises more than the other mode: a replacement that keeps size AND time stamp (cp -p, rsync -t, a restore) is
    # noticed too - also when the entry at hand was written while the server ran under mtime+size keying (restart in between)
    combos = [(m, sub, k, False) for m, sub, k in itertools.product([False, True], [False, True], kinds)]
    combos += [(False, sub, "kept-mtime-same-size", other) for sub in (False, True) for other in (False, True)]
    combos += [(False, sub, k, True) for sub in (False, True) for k in ("new-mtime-same-size", "kept-mtime-other-size")]
    for mode_stat, item_sub, kind, stored_under_other in combos:
        def conf_for(ms):
            return {"storage": {"use_mtime_and_size_for_item_cache": str(ms), "use_cache_subfolder_for_item": str(item_sub)}, "auth": {"type": "none"}}
        folder = None
        v = rng.randint(1, 3)
        login = "u:pw"
        if stored_under_other:
            first = App(conf_for(not mode_stat), keep=True)
            first.request("MKCALENDAR", "/u/c/", login=login)
            first.request("PUT", "/u/c/a.ics", ev("a", v), login=login)
            etag_first = first.request("GET", "/u/c/a.ics", login=login)[1].get("ETag")
            folder = first.folder
            first.close()
        with App(conf_for(mode_stat), folder=folder) as app:
            if not stored_under_other:
                app.request("MKCALENDAR", "/u/c/", login=login)
                st, hd, _ = app.request("PUT", "/u/c/a.ics", ev("a", v), login=login)
            st1, hd1, body1 = app.request("GET", "/u/c/a.ics", login=login) if not stored_under_other else (200, {"ETag": etag_first}, "")
            etag1 = hd1.get("ETag")
            fp = os.path.join(app.folder, "collection-root", "u", "c", "a.ics")
            s0 = os.stat(fp)
            new_v = v % 3 + 1                                             # same length, other digit
            text = ev("a", new_v, pad="" if kind.endswith("same-size") else " longer")
            with open(fp, "wb") as f:
                f.write(text.encode("utf-8"))
            t = {"new-mtime-same-size": s0.st_mtime_ns + 2_000_000_000, "new-mtime-other-size": s0.st_mtime_ns + 2_000_000_000,
                 "kept-mtime-other-size": s0.st_mtime_ns, "older-mtime-other-size": s0.st_mtime_ns - 5_000_000_000,
                 "one-ns-later-same-size": s0.st_mtime_ns + 1, "kept-mtime-same-size": s0.st_mtime_ns}[kind]
            os.utime(fp, ns=(t, t))
            case = {"keying": "mtime+size" if mode_stat else "hash", "item_cache_subfolder": item_sub, "replacement": kind,
                    "entry_written_under_the_other_keying_before_a_restart": stored_under_other,
                    "size_before": s0.st_size, "size_after": os.stat(fp).st_size}
            want = "SUMMARY:v%d" % new_v
            how = rng.choice(["GET", "REPORT", "PROPFIND"])
            if how == "GET":
                st2, hd2, body2 = app.request("GET", "/u/c/a.ics", login=login)
                etag2, shown = hd2.get("ETag"), body2
            elif how == "REPORT":
                st2, _, t2 = app.request("REPORT", "/u/c/", '<?xml version="1.0"?><C:calendar-multiget xmlns:D="DAV:" xmlns:C="urn:ietf:params:xml:ns:caldav">'
                                         '<D:prop><D:getetag/><C:calendar-data/></D:prop><D:href>/u/c/a.ics</D:href></C:calendar-multiget>', login=login)
                ms = parse_multistatus(t2)[0].get("/u/c/a.ics", {}) if st2 == 207 else {}
                etag2 = ms.get("D:getetag", (0, None))[1].text if isinstance(ms, dict) and "D:getetag" in ms else None
                shown = ms.get("C:calendar-data", (0, None))[1].text if isinstance(ms, dict) and "C:calendar-data" in ms else ""
            else:
                st2, _, t2 = app.request("PROPFIND", "/u/c/a.ics", '<?xml version="1.0"?><D:propfind xmlns:D="DAV:"><D:prop><D:getetag/></D:prop></D:propfind>',
                                         login=login, HTTP_DEPTH="0")
                ms = parse_multistatus(t2)[0].get("/u/c/a.ics", {}) if st2 == 207 else {}
                etag2 = ms.get("D:getetag", (0, None))[1].text if isinstance(ms, dict) and "D:getetag" in ms else None
                shown = None
            case.update(read=how, status=st2)
            ctx.case("external:%s:%s:%s" % (case["keying"], kind, how), sample=case, key=["external", mode_stat, item_sub, kind, stored_under_other], nontrivial=True)
            if st1 != 200 or st2 not in (200, 207):
                ctx.violation("reading the replaced item answered %s" % st2, case)
                continue
            if shown is not None and want not in (shown or ""):
                ctx.violation("an item file replaced by other means (%s) is served with its old content" % kind, case)
            if etag2 is None or etag2 == etag1:
                ctx.violation("an item file replaced by other means (%s) keeps its old ETag" % kind, case)
            if folder and not app.own_folder:
                shutil.rmtree(folder, ignore_errors=True)


class _CoarseStat:
    """a stat result whose time stamps have one-second granularity (FAT, some NFS exports, ext3, restored trees)"""

    def __init__(self, st):
        self._st = st

    def __getattr__(self, name):
        return getattr(self._st, name)

    @property
    def st_mtime_ns(self):
        return self._st.st_mtime_ns // 1_000_000_000 * 1_000_000_000

    @property
    def st_mtime(self):
        return float(int(self._st.st_mtime))


class _CoarseOS:
    def __init__(self, real):
        self._real = real

    def __getattr__(self, name):
        return getattr(self._real, name)

    def stat(self, *a, **kw):
        return _CoarseStat(self._real.stat(*a, **kw))


def coarse_clock_level(ctx, prop="C13"):
    """all writes go through the server, the file system keeps whole seconds only: several uploads of one name land in one tick with
    the same size.  The entry written by the latest upload is the one that counts - what is read back (body, ETag through GET,
    PROPFIND and REPORT, export) is the latest upload, with the cache kept and with it removed."""
    import radicale.storage.multifilesystem.get as rget
    import radicale.storage.multifilesystem.upload as rupload
    rng = ctx.rng("coarse")
    mods = [m for m in (rget, rupload) if hasattr(m, "os")]
    saved = [(m, m.os) for m in mods]
    try:
        for m in mods:
            m.os = _CoarseOS(m.os)
        for i in range(ctx.n(12, 300)):
            mode_stat = rng.random() < 0.75
            item_sub = rng.random() < 0.3
            with App({"storage": {"use_mtime_and_size_for_item_cache": str(mode_stat), "use_cache_subfolder_for_item": str(item_sub)},
                      "auth": {"type": "none"}}) as app:
                app.request("MKCALENDAR", "/u/c/", login="u:pw")
                steps = []
                last = {}
                for k in range(rng.randint(2, 6)):
                    href = rng.choice(["a.ics", "a.ics", "b.ics"])
                    if rng.random() < 0.15 and href in last:
                        st, _, _ = app.request("DELETE", "/u/c/" + href, login="u:pw")
                        steps.append(["DELETE", href, st])
                        last.pop(href, None)
                        continue
                    body = ev(href[0], rng.randint(0, 9))        # equal sizes: one digit differs
                    st, hd, _ = app.request("PUT", "/u/c/" + href, body, login="u:pw", CONTENT_TYPE="text/calendar")
                    steps.append(["PUT", href, body.split("SUMMARY:")[1][:6], st])
                    if st in (201, 204):
                        last[href] = (body, hd.get("ETag"))
                    if rng.random() < 0.5:
                        app.request("GET", "/u/c/" + href, login="u:pw")
                case = {"keying": "mtime+size" if mode_stat else "hash", "item_cache_subfolder": item_sub, "file system": "time stamps in whole seconds",
                        "steps": steps}
                reads = {}
                for label in ("cache kept", "cache removed"):
                    if label == "cache removed":
                        for root, dirs, _ in os.walk(app.folder):
                            for d in list(dirs):
                                if d == ".Radicale.cache":
                                    # items only: histories and sync tokens are not the item cache
                                    shutil.rmtree(os.path.join(root, d, "item"), ignore_errors=True)
                    out = {}
                    for href, v in last.items():
                        if href == "__whole__":
                            continue
                        st, hd, text = app.request("GET", "/u/c/" + href, login="u:pw")
                        out[href] = (st, hd.get("ETag"), (text or "").split("SUMMARY:")[1][:6] if "SUMMARY:" in (text or "") else None)
                    st, _, text = app.request("GET", "/u/c/", login="u:pw")
                    out["export"] = sorted(re.findall(r"SUMMARY:[^\r\n]*", text or ""))
                    reads[label] = out
                ctx.case("%s:coarse-clock:%s" % (prop, case["keying"]), sample=dict(case, reads=str(reads)[:300]), key=["coarse", i], nontrivial=mode_stat)
                if reads["cache kept"] != reads["cache removed"]:
                    ctx.violation("on a file system with whole-second time stamps what is read back depends on the item cache: %s with the cache, %s without"
                                  % (reads["cache kept"], reads["cache removed"]), case)
                for href, v in last.items():
                    if href == "__whole__":
                        continue
                    body, put_etag = v
                    got = reads["cache kept"].get(href)
                    want = body.split("SUMMARY:")[1][:6]
                    if got and (got[0] != 200 or got[2] != want or (put_etag and got[1] != put_etag)):
                        ctx.violation("the latest upload of %s (%r, ETag %s) is not what GET returns: %s" % (href, want, put_etag, got), case)
    finally:
        for m, o in saved:
            m.os = o


def cache_folder_level(ctx):
    """`_get_collection_cache_subfolder` against `CacheFolder.cacheSubfolder`: storage folders of several depths, the three kinds of
    cached data with their options on and off, collection paths that are ordinary and paths whose nested names spell out the root
    folder again (where `str.replace` replaces twice); different collections must get different folders (oracle), unless the
    root's text occurs again inside the path - the case the theorem excludes and `cache_folders_collide_when_root_reoccurs` exhibits"""
    import tempfile
    from radicale import config, storage
    from common import quiet_radicale
    quiet_radicale()
    rng = ctx.rng("cachefolder")
    if not ctx.driver:
        return
    for i in range(ctx.n(20, 300)):
        base = tempfile.mkdtemp(prefix="rverif-cf-")
        try:
            depth = rng.choice([0, 0, 1, 2])
            fsf = os.path.join(base, *[rng.choice(["s", "data", "var.lib"]) for _ in range(depth)]) if depth else base
            separate_cache = rng.random() < 0.4
            opts = {k: str(rng.random() < 0.6) for k in ("use_cache_subfolder_for_item", "use_cache_subfolder_for_history", "use_cache_subfolder_for_synctoken")}
            conf = config.load()
            st_conf = dict(opts, filesystem_folder=fsf, type="multifilesystem")
            if separate_cache:
                st_conf["filesystem_cache_folder"] = os.path.join(base, "elsewhere")
            conf.update({"storage": st_conf}, "verif", privileged=True)
            st = storage.load(conf)
            root = st._get_collection_root_folder()
            cache = st._get_collection_cache_folder()
            inner = root.strip("/").split("/")          # the names that would spell the root folder again
            rels = [["u", "cal"], ["v", "cal"], ["u", "c1"], ["u", "p", "c3"], ["u"] + inner + ["x"], ["u"] + inner[:-1] + ["collection-cache", "x"],
                    ["u", "collection-root"], ["u"] + inner]
            seen = {}
            for rel in rels:
                path = os.path.join(root, *rel)
                for sub, opt in (("item", "use_cache_subfolder_for_item"), ("history", "use_cache_subfolder_for_history"),
                                 ("sync-token", "use_cache_subfolder_for_synctoken")):
                    real = st._get_collection_cache_subfolder(path, ".Radicale.cache", sub)
                    a = ctx.driver.ask1({"m": "cachefolder", "relocated": opts[opt] == "True", "root": root, "cache": cache, "path": path,
                                         "folder": ".Radicale.cache", "sub": sub})
                    model = "".join(chr(x) for x in a["r"])
                    reoccurs = root in path[len(root):]
                    case = {"filesystem_folder": fsf, "separate_cache_folder": separate_cache, "options": opts, "collection": "/" + "/".join(rel), "kind": sub,
                            "root_text_occurs_again_in_the_path": reoccurs}
                    ctx.case("cachefolder:%s:%s" % (sub, "relocated" if opts[opt] == "True" else "in-place"), sample=dict(case, folder=real.replace(base, "<tmp>")),
                             key=["cf", i, tuple(rel), sub], nontrivial=opts[opt] == "True")
                    if real != model:
                        ctx.disagree("_get_collection_cache_subfolder vs CacheFolder.cacheSubfolder", case, real, model)
                    other = seen.get((sub, real))
                    if other is not None and other != rel and not reoccurs and root not in os.path.join(root, *other)[len(root):]:
                        ctx.violation("the collections /%s and /%s share the folder %s for their %s data" % ("/".join(other), "/".join(rel), real.replace(base, "<tmp>"), sub), case)
                    seen.setdefault((sub, real), rel)
        finally:
            shutil.rmtree(base, ignore_errors=True)


def run(ctx):
    ctx.extra["rule"] = ("paired histories of 15-60 steps on two calendars: PUT / GET / DELETE / MOVE (inside, across, over existing names) / whole "
                         "PUT / calendar-query with data / PROPFIND / external edits (valid, broken, removed) on both sides; on the side under test "
                         "also cache wipe, entry removal, planting of remembered entries (same or other name, either keying mode), restart "
                         "under the other keying mode, item cache in collection or sub-folder; non-trivial = a read after the cache was tampered with")
    ctx.trusted += ["harness/props/c13.py (paired driver, decoding of cache entries, scratch application as the cache-free parser)",
                    "Radicale's own cache debug log as the hit/miss observation", "SHA-256 injective"]
    ctx.assumptions += ["an external edit changes the file's mtime or its size (mtime+size keying)",
                        "uploaded items can be re-read from what was written (fails for finding F5's content)",
                        "sequential requests"]
    rng = ctx.rng("hist")
    n = ctx.n(50, 2500)
    for h in range(n):
        run_history(ctx, rng, h, rng.randint(15, 60))
    witness_f5(ctx)
    external_replacement_level(ctx)
    coarse_clock_level(ctx)
    cache_folder_level(ctx)
