"""C10 — all storage access happens under the storage lock in a sufficient mode.

Model: regenerated on every run.  harness/skeleton.py translates the current radicale/app/*.py into
lean/Generated/Skeleton.lean (per HTTP method: `_handle_request` with the `do_*` handler inlined, reduced to lock
windows, storage-API calls, early unlock, returns, raises, branches, loops, exception handlers).
Theorems: lean/Props/C10.lean - `disciplined_sound` (the static check is sound for every execution) and
`c10_current_tree` (every generated handler passes it; re-checked by the kernel against the regenerated file),
hook theorems.
Translator validation + failing-input search (run time, both tiers): every request type (all methods, success
and error exits, REPORT's early unlock, sync under the shared lock, cache misses, first login) runs under the
system-call interposer; (i) lock-set monitor on the raw log: every access to collection data lies inside a flock
window on .Radicale.lock, modifications only inside exclusive windows, cache writes inside any window;
(ii) the observed sequence of windows (mode, storage read / written inside) must be accepted by the regenerated
skeleton of that method (driver); (iii) the hook ran exactly for the requests that left an exclusive window
normally, and found the lock held exclusively.
"""
import interposer
interposer.reexec_with_preload()

import os  # noqa: E402
import shutil  # noqa: E402
import subprocess  # noqa: E402
import sys  # noqa: E402
import tempfile  # noqa: E402

import fsobs  # noqa: E402
import scenarios  # noqa: E402
from common import App, VERIF, permissive_rights  # noqa: E402

PROP_FILES = ["Props/C10.lean"]
LEVEL = "proof"

SYNC = ('<?xml version="1.0"?><D:sync-collection xmlns:D="DAV:"><D:sync-token/><D:sync-level>1</D:sync-level><D:prop><D:getetag/></D:prop>'
        '</D:sync-collection>')
MULTIGET = ('<?xml version="1.0"?><C:calendar-multiget xmlns:D="DAV:" xmlns:C="urn:ietf:params:xml:ns:caldav"><D:prop><D:getetag/>'
            '<C:calendar-data/></D:prop><D:href>/u/cal/a.ics</D:href><D:href>/u/cal/nope.ics</D:href></C:calendar-multiget>')
QUERY = ('<?xml version="1.0"?><C:calendar-query xmlns:D="DAV:" xmlns:C="urn:ietf:params:xml:ns:caldav"><D:prop><D:getetag/>'
         '<C:calendar-data/></D:prop><C:filter><C:comp-filter name="VCALENDAR"><C:comp-filter name="VEVENT"><C:time-range '
         'start="20000101T000000Z" end="20400101T000000Z"/></C:comp-filter></C:comp-filter></C:filter></C:calendar-query>')
FREEBUSY = ('<?xml version="1.0"?><C:free-busy-query xmlns:C="urn:ietf:params:xml:ns:caldav"><C:time-range start="20000101T000000Z" '
            'end="20400101T000000Z"/></C:free-busy-query>')
PROPFIND_ALL = ('<?xml version="1.0"?><D:propfind xmlns:D="DAV:"><D:prop><D:getetag/><D:sync-token/><D:resourcetype/>'
                '<D:displayname/></D:prop></D:propfind>')


def pre_build():
    import skeleton
    sk, do, notes = skeleton.generate(os.environ.get("VERIF_REPO", "/repo"), with_do=True)
    calls, imports = skeleton.xml_parser_calls(os.environ.get("VERIF_REPO", "/repo"))
    skeleton.write_lean(sk, os.path.join(VERIF, "lean", "Generated", "Skeleton.lean"), do, calls, imports)


def extra_kinds():
    L = scenarios.LOGIN
    k = {
        "get_item": ("GET", "/u/cal/a.ics", None, {}, L, 200),
        "get_item_cache_miss": ("GET", "/u/cal/a.ics", None, {"_wipe_cache": True}, L, 200),
        "get_collection": ("GET", "/u/cal/", None, {}, L, 200),
        "get_missing": ("GET", "/u/cal/nope.ics", None, {}, L, 404),
        "head_item": ("HEAD", "/u/cal/b.ics", None, {}, L, 200),
        "options": ("OPTIONS", "/u/cal/", None, {}, L, 200),
        "propfind_0": ("PROPFIND", "/u/cal/", PROPFIND_ALL, {"HTTP_DEPTH": "0"}, L, 207),
        "propfind_1": ("PROPFIND", "/u/cal/", PROPFIND_ALL, {"HTTP_DEPTH": "1"}, L, 207),
        "propfind_1_cache_miss": ("PROPFIND", "/u/", PROPFIND_ALL, {"HTTP_DEPTH": "1", "_wipe_cache": True}, L, 207),
        "propfind_bad_xml": ("PROPFIND", "/u/cal/", "<notxml", {}, L, 400),
        "propfind_missing": ("PROPFIND", "/u/nope/", None, {}, L, 404),
        "report_sync": ("REPORT", "/u/cal/", SYNC, {}, L, 207),
        "report_sync_cache_miss": ("REPORT", "/u/cal/", SYNC, {"_wipe_cache": True}, L, 207),
        "report_sync_bad_token": ("REPORT", "/u/cal/", SYNC.replace("<D:sync-token/>", "<D:sync-token>http://radicale.org/ns/sync/" + "0" * 64 + "</D:sync-token>"), {}, L, 403),
        "report_multiget": ("REPORT", "/u/cal/", MULTIGET, {}, L, 207),
        "report_query": ("REPORT", "/u/cal/", QUERY, {}, L, 207),
        "report_query_cache_miss": ("REPORT", "/u/cal/", QUERY, {"_wipe_cache": True}, L, 207),
        "report_freebusy": ("REPORT", "/u/cal/", FREEBUSY, {}, L, 200),
        "report_bad_xml": ("REPORT", "/u/cal/", "<notxml", {}, L, 400),
        "report_on_item": ("REPORT", "/u/cal/a.ics", MULTIGET, {}, L, 207),
        "report_query_on_item": ("REPORT", "/u/cal/a.ics", QUERY, {}, L, 207),
        "report_freebusy_writer_waiting": ("REPORT", "/u/cal/", FREEBUSY, {"_writer_after_unlock": True}, L, 200),
        "report_query_writer_waiting": ("REPORT", "/u/cal/", QUERY, {"_writer_after_unlock": True}, L, 207),
        "put_if_match_fails": ("PUT", "/u/cal/a.ics", scenarios.ev("a", "x"), {"HTTP_IF_MATCH": '"nope"'}, L, 412),
        "put_invalid_body": ("PUT", "/u/cal/q.ics", "BEGIN:VCALENDAR\r\nnonsense", {}, L, 400),
        # the preconditions clients really send: "create, do not overwrite" and "replace what I have seen"
        "put_if_none_match_new": ("PUT", "/u/cal/fresh.ics", scenarios.ev("fresh"), {"HTTP_IF_NONE_MATCH": "*"}, L, 201),
        "put_if_none_match_exists": ("PUT", "/u/cal/a.ics", scenarios.ev("a", "x"), {"HTTP_IF_NONE_MATCH": "*"}, L, 412),
        "put_if_none_match_cache_miss": ("PUT", "/u/cal/a.ics", scenarios.ev("a", "x"), {"HTTP_IF_NONE_MATCH": "*", "_wipe_cache": True}, L, 412),
        "delete_if_match_star": ("DELETE", "/u/cal/a.ics", None, {"HTTP_IF_MATCH": "*"}, L, 200),
        "put_uid_conflict": ("PUT", "/u/cal/other.ics", scenarios.ev("a"), {}, L, 409),
        "delete_missing": ("DELETE", "/u/cal/nope.ics", None, {}, L, 404),
        "delete_if_match_fails": ("DELETE", "/u/cal/a.ics", None, {"HTTP_IF_MATCH": '"nope"'}, L, 412),
        "move_missing": ("MOVE", "/u/cal/nope.ics", None, {"HTTP_DESTINATION": "http://127.0.0.1/u/cal/z.ics"}, L, 404),
        "move_exists_no_overwrite": ("MOVE", "/u/cal/a.ics", None, {"HTTP_DESTINATION": "http://127.0.0.1/u/cal/b.ics"}, L, 412),
        "move_other_tag": ("MOVE", "/u/cal/a.ics", None, {"HTTP_DESTINATION": "http://127.0.0.1/u/ab/a.ics"}, L, 403),
        "mkcol_exists": ("MKCOL", "/u/cal/", None, {}, L, 405),
        "mkcalendar_exists": ("MKCALENDAR", "/u/cal/", None, {}, L, 409),
        "mkcalendar_no_parent": ("MKCALENDAR", "/u/nope/deep/", None, {}, L, 409),
        "proppatch_bad_xml": ("PROPPATCH", "/u/cal/", "<notxml", {}, L, 400),
        # a PROPPATCH that names no property still rewrites the property file: it is a write request like any other
        "proppatch_no_instruction": ("PROPPATCH", "/u/cal/", '<?xml version="1.0"?><D:propertyupdate xmlns:D="DAV:"/>', {}, L, 207),
        "proppatch_no_body": ("PROPPATCH", "/u/cal/", None, {}, L, 207),
        "proppatch_missing": ("PROPPATCH", "/u/nope/", scenarios.PROPPATCH, {}, L, 404),
        "post": ("POST", "/u/cal/", "x", {}, L, 405),
        # first request of a user when the configuration asks for predefined collections: they are created with the home
        "first_login_predefined": ("PROPFIND", "/w/", None, {"HTTP_DEPTH": "1", "_conf": {"storage": {"predefined_collections":
                                   '{"personal": {"tag": "VCALENDAR", "D:displayname": "Personal"}, "contacts": {"tag": "VADDRESSBOOK"}}'}}},
                                   "w:pw", 207),
        "anonymous_get": ("GET", "/u/cal/a.ics", None, {}, None, 200),
    }
    return k


def classify(folder, path):
    """'lock' | 'cachelock' | 'cache' | 'data' | None (outside the storage folder)"""
    if path.startswith(folder + "-cache/") or path == folder + "-cache":
        # the separate cache folder of the "cachefolder" configurations (common.App "@tmp"): disposable cache area; a lock file
        # there is a cache lock, never the storage lock - the storage lock is the one file <filesystem_folder>/.Radicale.lock
        return "cachelock" if path.rsplit("/", 1)[-1].startswith(".Radicale.lock") else "cache"
    if not path.startswith(folder + "/") and path != folder:
        return None
    rel = path[len(folder):].strip("/")
    comps = rel.split("/") if rel else []
    if rel == ".Radicale.lock":
        return "lock"
    if not comps:
        return "root"
    if comps[0] == "collection-cache":
        return "cachelock" if comps[-1].startswith(".Radicale.lock") else "cache"
    if comps[0] == "collection-root":
        if ".Radicale.cache" in comps:
            return "cachelock" if comps[-1].startswith(".Radicale.lock") else "cache"
        if len(comps) == 1:
            return "root"
        return "data"
    return "other"


READ_OPS = {"open", "opendir", "stat", "lstat", "fstatat", "statx", "access"}
WRITE_OPS = {"openw", "mkdir", "rmdir", "unlink", "rename", "utimens", "write", "fsync"}


def monitor(folder, entries, tid=None):
    """lock-set monitor on one request's log (the thread `tid`, or the first thread that touches the lock file).
    Returns (complaints, windows)"""
    tids = [e["tid"] for e in entries if e["op"] == "flock" and classify(folder, e["path"]) == "lock"]
    main = tid if tid is not None else (tids[0] if tids else (entries[0]["tid"] if entries else None))
    held = None
    complaints = []
    windows = []
    cur = None
    for e in entries:
        if e["tid"] != main:
            continue
        cls = classify(folder, e["path"])
        op = e["op"]
        if cls == "lock":
            if op == "flock":
                held = "w" if e["detail"] == "EX" else "r" if e["detail"] == "SH" else None
                if held:
                    cur = {"mode": held, "reads": False, "writes": False}
                    windows.append(cur)
                else:
                    cur = None
            elif op == "close":
                held = None
                cur = None
            continue
        if cls in (None, "other", "root", "cachelock"):
            continue
        if op in WRITE_OPS:
            if op in ("write", "fsync") and cls == "data" and held == "w":
                pass
            if cls == "data":
                if held != "w":
                    complaints.append("%s %s on collection data while holding %s" % (op, e["path"][len(folder):], held or "no lock"))
                if cur:
                    cur["writes"] = True
            elif cls == "cache":
                if held is None:
                    complaints.append("%s %s in the cache area while holding no lock" % (op, e["path"][len(folder):]))
            if op == "rename" and e.get("path2"):
                c2 = classify(folder, e["path2"])
                if c2 == "data" and held != "w":
                    complaints.append("rename onto %s while holding %s" % (e["path2"][len(folder):], held or "no lock"))
        elif op in READ_OPS:
            if cls == "data":
                if held is None:
                    complaints.append("%s %s (collection data read) while holding no lock" % (op, e["path"][len(folder):]))
                if cur:
                    cur["reads"] = True
    return complaints, windows


def writer_after_unlock(app):
    """REPORT releases the storage lock early; make another thread take the lock exclusively right after that release
    and keep it until the request is answered.  Whatever the REPORT still reads from the storage then shows up in
    its thread's log outside every window (the per-request property cache is bypassed while a writer is inside)."""
    import contextlib
    import threading
    storage = app.storage
    orig = storage.acquire_lock
    state = {"writer": None, "stop": threading.Event(), "inside": threading.Event()}

    def writer():
        with orig("w", "other"):
            state["inside"].set()
            state["stop"].wait(timeout=10)

    @contextlib.contextmanager
    def spy(mode, user="", *args, **kwargs):
        cm = orig(mode, user, *args, **kwargs)
        cm.__enter__()
        try:
            yield
        finally:
            cm.__exit__(None, None, None)
            if mode == "r" and state["writer"] is None and getattr(spy, "armed", False):
                state["writer"] = threading.Thread(target=writer, daemon=True)
                state["writer"].start()
                state["inside"].wait(timeout=10)
    spy.armed = False
    storage.acquire_lock = spy
    # the handler's window is the last shared window of the request: arm when the principal look-up is over
    from radicale.app.base import ApplicationBase
    orig_read = ApplicationBase._read_xml_request_body

    def arm(self, environ):
        spy.armed = True
        return orig_read(self, environ)
    ApplicationBase._read_xml_request_body = arm

    def undo():
        state["stop"].set()
        if state["writer"]:
            state["writer"].join(timeout=10)
        storage.acquire_lock = orig
        ApplicationBase._read_xml_request_body = orig_read
    return undo


def run_kind(ctx, rec, name, kind, conf_name, conf, hooklog):
    if len(kind) == 7:
        method, path, body, env, login, _calls, expect = kind
    else:
        method, path, body, env, login, expect = kind
    env = dict(env)
    wipe = env.pop("_wipe_cache", False)
    injected_writer = bool(env.get("_writer_after_unlock"))
    conf = dict(conf)
    for sect, vals in (env.pop("_conf", None) or {}).items():
        conf[sect] = dict(conf.get(sect, {}), **vals)
    with App(dict(conf, rights=permissive_rights(), auth={"type": "none"})) as app:
        scenarios.build_store(app, 2)
        if wipe:
            for dp, dn, fn in os.walk(app.folder):
                for d in list(dn):
                    if d == ".Radicale.cache":
                        shutil.rmtree(os.path.join(dp, d), ignore_errors=True)
                        dn.remove(d)
        if os.path.exists(hooklog):
            os.unlink(hooklog)
        undo = writer_after_unlock(app) if env.pop("_writer_after_unlock", False) else None
        rec.start()
        try:
            st, hd, _ = app.request(method, path, body, login=login, **env)
        finally:
            ent, _ = rec.stop()
            if undo:
                undo()
        folder = os.path.realpath(app.folder)
        complaints, windows = monitor(folder, ent)
        hook_lines = open(hooklog).read().split("\n")[:-1] if os.path.exists(hooklog) else []
    case = {"request": name, "config": conf_name, "method": method, "path": path, "status": st,
            "windows": [(w["mode"], "R" if w["reads"] else "-", "W" if w["writes"] else "-") for w in windows]}
    ctx.case("%s|%s" % (name, conf_name), sample=case, key=[name, conf_name], nontrivial=bool(windows))
    if st != expect:
        ctx.violation("request %s answered %s instead of %s (scenario broken?)" % (name, st, expect), case, expect, st)
    for c in complaints[:3]:
        ctx.violation("lock discipline: " + c, case)
    # (iii) hook
    wwins = [w for w in windows if w["mode"] == "w"]
    if "hook" in conf_name and not injected_writer:      # (the injected writer's own window runs the hook)
        if any(not x.startswith("exclusive ") for x in hook_lines):
            ctx.violation("the hook ran while the storage lock was not held exclusively: %s" % hook_lines, case)
        if not wwins and hook_lines:
            ctx.violation("the hook ran for a request that took only the shared lock", case)
        if wwins and st < 400 and len(hook_lines) != len(wwins):
            ctx.violation("the hook ran %d times for %d exclusive windows of a successful request" % (len(hook_lines), len(wwins)), case)
    # (ii) translator validation: the regenerated skeleton accepts what happened
    if ctx.driver and "nolock" not in conf_name:
        a = ctx.driver.ask1({"m": "skeleton", "method": method, "wins": windows})
        if "error" in a:
            ctx.disagree("skeleton for method missing", case, method, a)
        elif not a["accepts"]:
            ctx.disagree("observed lock windows are not an execution of the regenerated skeleton", case, case["windows"], "rejected")
        if not a.get("disciplined", True):
            ctx.extra.setdefault("undisciplined", []).append(method)


def overlapping_requests(ctx, rec):
    """two requests of one process overlap in time: request A is held inside its lock window (at an item read) while request B
    runs; every thread must take the lock file itself — the lock-set rule is per serving thread, not per process"""
    import threading
    import radicale.storage.multifilesystem.get as mget
    L = scenarios.LOGIN
    combos = [("PROPFIND", "/u/cal/", PROPFIND_ALL, {"HTTP_DEPTH": "1"}, "GET", "/u/cal/b.ics", None, {}),
              ("REPORT", "/u/cal/", MULTIGET, {}, "PROPFIND", "/u/cal/", PROPFIND_ALL, {"HTTP_DEPTH": "1"}),
              ("PROPFIND", "/u/cal/", PROPFIND_ALL, {"HTTP_DEPTH": "1"}, "REPORT", "/u/cal/", QUERY, {}),
              ("GET", "/u/cal/", None, {}, "GET", "/u/cal/a.ics", None, {})]
    for conf_name, conf in (("default", {}), ("nolock", {"storage": {"type": "multifilesystem_nolock"}})):
        for ma, pa, ba, ea, mb, pb, bb, eb in combos:
            with App(dict(conf, rights=permissive_rights(), auth={"type": "none"})) as app:
                scenarios.build_store(app, 2)
                folder = os.path.realpath(app.folder)
                orig_get = mget.CollectionPartGet._get
                state = {"a_tid": None, "b": None, "b_tid": None, "b_status": None, "n": 0}

                def run_b():
                    state["b_tid"] = str(threading.get_native_id())
                    state["b_status"] = app.request(mb, pb, bb, login=L, **eb)[0]

                def held_get(self, href, verify_href=True):
                    if threading.get_ident() == state["a_tid"] and state["b"] is None:
                        state["b"] = threading.Thread(target=run_b, daemon=True)
                        state["b"].start()
                        state["b"].join(timeout=10)          # both are readers: B does not have to wait for A
                    return orig_get(self, href, verify_href)
                mget.CollectionPartGet._get = held_get
                state["a_tid"] = threading.get_ident()
                a_native = str(threading.get_native_id())
                rec.start()
                try:
                    sa = app.request(ma, pa, ba, login=L, **ea)[0]
                    if state["b"] is not None:
                        state["b"].join(timeout=20)
                finally:
                    mget.CollectionPartGet._get = orig_get
                    ent, _ = rec.stop()
                case = {"held": "%s %s" % (ma, pa), "meanwhile": "%s %s" % (mb, pb), "config": conf_name,
                        "statuses": [sa, state["b_status"]], "meanwhile_ran": state["b"] is not None}
                ctx.case("overlap:%s/%s|%s" % (ma, mb, conf_name), sample=case, key=["overlap", ma, mb, conf_name], nontrivial=state["b"] is not None)
                if conf_name == "nolock":
                    continue                              # no lock file: only that both are served
                for who, tid in (("held request", a_native), ("request served meanwhile", state["b_tid"])):
                    if tid is None:
                        continue
                    complaints, windows = monitor(folder, ent, tid=tid)
                    for c in complaints[:2]:
                        ctx.violation("lock discipline (%s, its own thread): %s" % (who, c), case)


def hook_leftover_level(ctx):
    """a hook that leaves a background job behind: the hook's process group is ended before the exclusive window is given up, whatever
    way the hook returns - nothing the hook started looks at the storage once the lock is released"""
    import time
    hooklog = os.path.join(tempfile.gettempdir(), "rverif-hook-late-%d.log" % os.getpid())
    hook = "%s %s/harness/hookprobe.py %%(cwd)s %%(user)s %s linger" % (sys.executable, VERIF, hooklog)
    kinds = dict(scenarios.kinds())
    try:
        for name in ("put_new", "mkcalendar", "delete_item", "first_login"):
            if name not in kinds:
                continue
            method, path, body, env, login, calls, expect = kinds[name]
            if os.path.exists(hooklog):
                os.unlink(hooklog)
            with App(dict({"storage": {"hook": hook}}, rights=permissive_rights(), auth={"type": "none"})) as app:
                scenarios.build_store(app, 0)
                if os.path.exists(hooklog):
                    os.unlink(hooklog)
                st, _, _ = app.request(method, path, body, login=login, **env)
                time.sleep(0.9)
                lines = open(hooklog).read().split("\n")[:-1] if os.path.exists(hooklog) else []
            case = {"request": name, "status": st, "hook": "records the lock state, forks a job that looks again 0.4 s later", "hook_log": lines}
            ctx.case("hook-leftover:%s" % name, sample=case, key=["leftover", name], nontrivial=bool(lines))
            late = [x for x in lines if x.startswith("late:")]
            if late:
                ctx.violation("a job left behind by the storage hook was still running after the exclusive window of %s ended and looked at the "
                              "storage without the lock: %s" % (name, late), case)
    finally:
        if os.path.exists(hooklog):
            os.unlink(hooklog)


def run(ctx):
    ctx.extra["rule"] = ("21 modifying + 35 reading / failing request types (all methods, error exits, REPORT variants incl. early unlock, "
                         "sync under the shared lock, emptied caches, first login, anonymous) x configurations {default, hook, cache sub-folders, "
                         "mtime keying}; a case = one request under the interposer; non-trivial = it opened a lock window")
    ctx.trusted += ["harness/skeleton.py (translator; validated by (ii))", "interpose/interpose.c and the log classification in harness/props/c10.py",
                    "flock semantics of the kernel", "harness/hookprobe.py"]
    ctx.assumptions += ["in-memory attributes of items (.etag, .serialize()) are decided at run time, not by the skeleton",
                        "one request per process at a time in the run-time part (schedules are covered by the lock-set argument + C11)"]
    rec = fsobs.Recorder()
    hooklog = os.path.join(tempfile.gettempdir(), "rverif-hook-%d.log" % os.getpid())
    hook = "%s %s/harness/hookprobe.py %%(cwd)s %%(user)s %s" % (sys.executable, VERIF, hooklog)
    confs = [("default", {}), ("hook", {"storage": {"hook": hook}})]
    if ctx.tier == "thorough":
        confs += [("cachesub+hook", {"storage": {"hook": hook, "use_cache_subfolder_for_item": "True", "use_cache_subfolder_for_history": "True",
                                                  "use_cache_subfolder_for_synctoken": "True"}}),
                  ("mtime", {"storage": {"use_mtime_and_size_for_item_cache": "True"}})]
    kinds = dict(scenarios.kinds())
    kinds.update(extra_kinds())
    # a separate cache folder: the lock that counts is still the one file in the storage folder (a second server or the documented
    # `flock <storage>/.Radicale.lock` of an administrator shares only that one); quick: a cross-section of the request types
    cf = ("cachefolder+hook", {"storage": {"hook": hook, "filesystem_cache_folder": "@tmp", "use_cache_subfolder_for_item": "True",
                                           "use_cache_subfolder_for_history": "True", "use_cache_subfolder_for_synctoken": "True"}})
    cf_kinds = set(kinds) if ctx.tier == "thorough" else {"put_new", "delete_item", "move_across", "proppatch", "mkcalendar", "first_login",
                                                           "get_item", "propfind_depth1", "report_sync", "report_multiget"} & set(kinds)
    if ctx.tier != "thorough" and len(cf_kinds) < 8:
        cf_kinds = set(list(kinds)[::6])
    try:
        for conf_name, conf in confs:
            for name, kind in kinds.items():
                run_kind(ctx, rec, name, kind, conf_name, conf, hooklog)
        for name, kind in kinds.items():
            if name in cf_kinds:
                run_kind(ctx, rec, name, kind, cf[0], cf[1], hooklog)
        overlapping_requests(ctx, rec)
        hook_leftover_level(ctx)
    finally:
        rec.close()
        if os.path.exists(hooklog):
            os.unlink(hooklog)
    # a broken static obligation: name the handlers that fail the check
    if ctx.broken and ctx.driver:
        bad = sorted(set(ctx.extra.get("undisciplined", [])))
        ctx.extra["undisciplined_handlers"] = bad
