"""C11 — the storage lock is a correct readers-writer lock under every schedule.

Theorems: lean/Props/C11.lean (inductive invariants of three lock protocols, unbounded threads).
Correspondence: the *real* classes (pathutils.RwLock with flock, multifilesystem_nolock.RwLock with a condition
variable, multifilesystem_nolock.LockDict) run under cooperative stand-ins for threading / fcntl / open that
are installed into the lock modules' namespaces; a scheduler executes one synchronisation operation at a time
following a generated schedule.  After every step the bookkeeping (_readers, _writer, mutex owner, queue
shape), the program phase of every thread, `locked`, and the set of enabled threads are compared with the
model (driver).  Oracle independent of the model: never a writer together with anybody else; `locked`
reports the mode held inside a body; every schedule runs to completion (no deadlock, no lost wake-up).
"""
import threading as real_threading
import types

PROP_FILES = ["Props/C11.lean", "Props/C11Shape.lean"]


def pre_build():
    """the shape of the lock sections is translated from /repo's current source on every run (harness/lockshape.py)"""
    import os
    import lockshape
    here = os.path.dirname(os.path.dirname(os.path.dirname(os.path.abspath(__file__))))
    lockshape.write_lean(lockshape.generate(os.environ.get("VERIF_REPO", "/repo")), os.path.join(here, "lean", "Generated", "LockShape.lean"))
LEVEL = "proof"


class Abort(Exception):
    pass


class Sched:
    def __init__(self):
        self.cv = real_threading.Condition()
        self.granted = None
        self.threads = []
        self.abort = False

    def current(self):
        return getattr(real_threading.current_thread(), "lthread", None)

    def run(self, t):
        """let logical thread t execute its pending operation and run to its next scheduling point"""
        with self.cv:
            assert t.state == "parked" and t.can_run()
            self.granted = t
            t.state = "running"
            self.cv.notify_all()
            while t.state == "running":
                if not self.cv.wait(timeout=20):
                    raise RuntimeError("logical thread did not reach a scheduling point")

    def shutdown(self):
        with self.cv:
            self.abort = True
            self.cv.notify_all()
        for t in self.threads:
            t.thread.join(timeout=5)


class LThread:
    def __init__(self, sched, idx, fn):
        self.sched = sched
        self.idx = idx
        self.state = "new"
        self.pending = None
        self.can = lambda: True
        self.path = "acq"
        self.mode = None
        self.key = None
        self.notified = False
        self.slept = False
        self.error = None

        def body():
            try:
                fn(self)
            except Abort:
                pass
            except BaseException as e:  # noqa
                self.error = e
            with sched.cv:
                self.state = "done"
                self.pending = ("done",)
                sched.cv.notify_all()
        self.thread = real_threading.Thread(target=body, daemon=True)
        self.thread.lthread = self
        sched.threads.append(self)

    def start(self):
        with self.sched.cv:
            self.thread.start()
            while self.state == "new":
                self.sched.cv.wait()

    def can_run(self):
        return self.state == "parked" and self.can()

    def park(self, label, can=lambda: True):
        s = self.sched
        with s.cv:
            self.pending = label
            self.can = can
            self.state = "parked"
            s.cv.notify_all()
            while s.granted is not self:
                if s.abort:
                    raise Abort()
                s.cv.wait()
            s.granted = None
            self.state = "running"


class BodyError(Exception):
    """raised inside a critical section by the plan: the lock must be released all the same"""


def make_standins(sched):
    class CoopLock:
        def __init__(self):
            self.owner = None
            self.creator = sched.current()

        def acquire(self, blocking=True, timeout=-1):
            me = sched.current()
            if me is None:
                assert self.owner is None
                self.owner = "main"
                return True
            me.park(("lock", self), lambda: self.owner is None)
            self.owner = me
            return True

        def release(self):
            me = sched.current()
            if me is None:
                self.owner = None
                return
            me.park(("unlock", self))
            self.owner = None

        def locked(self):
            return self.owner is not None

        def __enter__(self):
            self.acquire()
            return self

        def __exit__(self, *a):
            self.release()

    class CoopCondition:
        def __init__(self, lock=None):
            self._lock = lock if lock is not None else CoopLock()
            self.waiters = []

        def __enter__(self):
            self._lock.acquire()
            return self

        def __exit__(self, *a):
            self._lock.release()

        def wait_for(self, predicate, timeout=None):
            while not predicate():
                self.wait()
            return True

        def wait(self, timeout=None):
            me = sched.current()
            me.park(("wait", self))
            self._lock.owner = None
            me.notified = False
            me.slept = True
            self.waiters.append(me)
            me.park(("relock", self), lambda: me.notified and self._lock.owner is None)
            self._lock.owner = me

        def notify_all(self):
            for w in self.waiters:
                w.notified = True
            self.waiters = []

        def notify(self, n=1):
            for w in self.waiters[:n]:
                w.notified = True
            self.waiters = self.waiters[n:]

    return types.SimpleNamespace(Lock=CoopLock, Condition=CoopCondition, RLock=CoopLock)


# ------------------------------------------------------------------------------------------------ CV lock

def cv_label(t):
    if t.state == "done":
        return "idle"
    p = t.pending[0]
    m = t.mode
    if p == "start":
        return "idle"
    if p == "lock":
        return ("wantA:" if t.path == "acq" else "wantR:") + m
    if p == "unlock":
        return ("exitA:" + m) if t.path == "acq" else "exitR"
    if p == "wait":
        return "testA:" + m
    if p == "relock":
        return ("woken:" if t.notified else "asleep:") + m
    if p == "body":
        return "cs:" + m
    return "?"


def run_cv_schedule(ctx, rng, nthreads, cycles, exhaustive_choices=None):
    import radicale.storage.multifilesystem_nolock as nolock
    from radicale import pathutils
    sched = Sched()
    standin = make_standins(sched)
    saved = (nolock.threading, pathutils.threading)
    nolock.threading = standin
    pathutils.threading = standin
    try:
        lock = nolock.RwLock()
    finally:
        pass
    plan = [[rng.choice("rw") for _ in range(cycles)] for _ in range(nthreads)]
    raises = [[rng.random() < 0.2 for _ in range(cycles)] for _ in range(nthreads)]

    def fn(me):
        for m, boom in zip(plan[me.idx], raises[me.idx]):
            me.mode = m
            me.path = "acq"
            me.park(("start",))
            try:
                with lock.acquire(m):
                    me.path = "rel"
                    me.park(("body",))
                    if boom:
                        raise BodyError()
            except BodyError:
                pass
    threads = [LThread(sched, i, fn) for i in range(nthreads)]
    case = {"lock": "cv", "plan": ["".join(p) for p in plan], "schedule": []}
    ok = True
    try:
        for t in threads:
            t.start()
        sid = ctx.driver.ask1({"m": "lock", "kind": "cv", "op": "new", "n": nthreads})["sid"] if ctx.driver else None
        steps = 0
        while True:
            live = [t for t in threads if t.state != "done"]
            if not live:
                break
            enabled = [t for t in live if t.can_run()]
            if not enabled:
                ctx.violation("deadlock: unfinished threads but none can run", case, "progress", [cv_label(t) for t in threads])
                ok = False
                break
            t = rng.choice(enabled)
            case["schedule"].append(t.idx)
            sched.run(t)
            steps += 1
            if t.error:
                ctx.violation("lock operation raised %r" % t.error, case)
                ok = False
                break
            # oracle on the implementation
            inside = [(x.idx, x.mode) for x in threads if x.state == "parked" and x.pending[0] == "body"]
            if any(m == "w" for _, m in inside) and len(inside) > 1:
                ctx.violation("a writer is inside together with another holder", case, "exclusion", inside)
                ok = False
                break
            if lock._lock.owner is None and inside:
                view = lock.locked
                if view != inside[0][1]:
                    ctx.violation("`locked` reports %r while mode %r is held" % (view, inside[0][1]), case)
                    ok = False
                    break
            # no lost wake-up: with the mutex free, nobody sleeps although the condition it waits for holds
            if lock._lock.owner is None:
                for x in threads:
                    if x.state == "parked" and x.pending[0] == "relock" and not x.notified:
                        pred = (not lock._writer) if x.mode == "r" else (not lock._writer and lock._readers == 0)
                        if pred:
                            ctx.violation("lost wake-up: thread %d sleeps waiting for mode %r although the lock admits it "
                                          "(_readers=%d, _writer=%s)" % (x.idx, x.mode, lock._readers, lock._writer), case)
                            ok = False
                if not ok:
                    break
            if sid is not None:
                # advance the model thread until it shows the same phase
                st = None
                want = cv_label(t)
                for _ in range(4):
                    st = ctx.driver.ask1({"m": "lock", "kind": "cv", "op": "step", "sid": sid, "t": t.idx, "mode": t.mode})
                    if st.get("blocked") or st["state"]["pcs"][t.idx] == want:
                        break
                ms = st["state"]
                real = {"readers": lock._readers, "writer": lock._writer,
                        "mutex": (lock._lock.owner.idx if isinstance(lock._lock.owner, LThread) else None),
                        "pcs": [cv_label(x) for x in threads]}
                model = {k: ms[k] for k in ("readers", "writer", "mutex", "pcs")}
                if st.get("blocked") or real != model:
                    ctx.disagree("condition-variable RwLock vs model after a step", dict(case), real, dict(model, blocked=st.get("blocked", False)))
                    sid = None          # keep running the schedule so that the oracles can find a failing state
                    continue
                en_real = [x.can_run() for x in threads]
                en_model = [ms["enabled"][x.idx] and x.state != "done" for x in threads]
                if en_real != en_model:
                    ctx.disagree("enabled threads (real vs model)", dict(case), en_real, en_model)
                    sid = None
                    continue
            if steps > 400:
                ctx.violation("schedule does not terminate", case)
                ok = False
                break
    finally:
        sched.shutdown()
        nolock.threading, pathutils.threading = saved
    ctx.case("cv:%dthreads" % nthreads, sample={"plan": case["plan"], "schedule": case["schedule"][:40]},
             key=[case["plan"], case["schedule"]], nontrivial=any(x.slept for x in threads))
    return ok


# --------------------------------------------------------------------------------------------- flock lock

def fl_label(t):
    if t.state == "done":
        return "idle"
    p = t.pending[0]
    m = t.mode
    if p == "start":
        return "idle"
    if p == "flock":
        return "wantK:" + m
    if p == "lock":
        return ("gotK:" if t.path == "acq" else "cs:") + m
    if p == "unlock":
        return ("cs:" if t.path == "acq" else "closing:") + m
    if p == "body":
        return "cs:" + m
    if p == "close":
        return "closing:" + m
    if p == "funlock":
        return "funlock:" + m
    return "?"


def run_flock_schedule(ctx, rng, nthreads, cycles):
    from radicale import pathutils
    import fcntl as real_fcntl
    sched = Sched()
    standin = make_standins(sched)
    kernel = {}      # open file description -> (thread, mode)

    class CoopFile:
        def __init__(self):
            self.me = sched.current()

        def fileno(self):
            return id(self)

        def __enter__(self):
            return self

        def __exit__(self, *a):
            self.me.park(("close",))
            kernel.pop(id(self), None)

    def coop_open(path, mode="r", *a, **k):
        return CoopFile()

    def compatible(fd, cmd):
        others = [m for f, (_, m) in kernel.items() if f != fd]
        return not others if cmd == real_fcntl.LOCK_EX else "w" not in others

    def coop_flock(fd, cmd):
        me = sched.current()
        if cmd == real_fcntl.LOCK_UN:
            # (not used by the code as it is; a variant that unlocks explicitly must be schedulable too)
            me.park(("funlock",))
            kernel.pop(fd, None)
            return
        me.park(("flock",), lambda: compatible(fd, cmd))
        kernel[fd] = (me, "w" if cmd == real_fcntl.LOCK_EX else "r")

    saved = (pathutils.threading, pathutils.fcntl, getattr(pathutils, "open", None))
    pathutils.threading = standin
    pathutils.fcntl = types.SimpleNamespace(flock=coop_flock, LOCK_EX=real_fcntl.LOCK_EX, LOCK_SH=real_fcntl.LOCK_SH, LOCK_UN=real_fcntl.LOCK_UN)
    pathutils.open = coop_open
    lock = pathutils.RwLock("/nonexistent/verif.lock")
    plan = [[rng.choice("rw") for _ in range(cycles)] for _ in range(nthreads)]
    raises = [[rng.random() < 0.2 for _ in range(cycles)] for _ in range(nthreads)]

    def fn(me):
        for m, boom in zip(plan[me.idx], raises[me.idx]):
            me.mode = m
            me.path = "acq"
            me.park(("start",))
            try:
                with lock.acquire(m):
                    me.path = "rel"
                    me.park(("body",))
                    if boom:
                        raise BodyError()
            except BodyError:
                pass
    threads = [LThread(sched, i, fn) for i in range(nthreads)]
    case = {"lock": "flock", "plan": ["".join(p) for p in plan], "body_raises": raises, "schedule": []}
    contended = False
    try:
        for t in threads:
            t.start()
        sid = ctx.driver.ask1({"m": "lock", "kind": "flock", "op": "new", "n": nthreads})["sid"] if ctx.driver else None
        steps = 0
        while True:
            live = [t for t in threads if t.state != "done"]
            if not live:
                break
            enabled = [t for t in live if t.can_run()]
            if len(enabled) < len(live):
                contended = True
            if not enabled:
                ctx.violation("deadlock: unfinished threads but none can run", case, "progress", [fl_label(t) for t in threads])
                break
            t = rng.choice(enabled)
            case["schedule"].append(t.idx)
            sched.run(t)
            steps += 1
            if t.error:
                ctx.violation("lock operation raised %r (Guarantees failed?)" % t.error, case)
                break
            inside = [(x.idx, x.mode) for x in threads if x.state == "parked" and x.pending[0] == "body"]
            if any(m == "w" for _, m in inside) and len(inside) > 1:
                ctx.violation("a writer is inside together with another holder", case, "exclusion", inside)
                break
            if lock._lock.owner is None and inside and lock.locked != inside[0][1]:
                ctx.violation("`locked` reports %r while mode %r is held" % (lock.locked, inside[0][1]), case)
                break
            if sid is not None:
                want = fl_label(t)
                st = ctx.driver.ask1({"m": "lock", "kind": "flock", "op": "get", "sid": sid})
                for _ in range(3):
                    if st["state"]["pcs"][t.idx] == want:
                        break
                    st = ctx.driver.ask1({"m": "lock", "kind": "flock", "op": "step", "sid": sid, "t": t.idx, "mode": t.mode})
                    if st.get("blocked"):
                        break
                ms = st["state"]
                real = {"readers": lock._readers, "writer": lock._writer, "pcs": [fl_label(x) for x in threads]}
                model = {k: ms[k] for k in ("readers", "writer", "pcs")}
                if st.get("blocked") or real != model:
                    ctx.disagree("flock RwLock vs model after a step", dict(case), real, dict(model, blocked=st.get("blocked", False)))
                    # the schedule goes on without the model: the oracles above look for a concrete failure
                    # (an exception out of acquire, two holders, a wrong `locked` view, a deadlock)
                    sid = None
                    continue
                for x in threads:
                    if x.state == "parked" and x.pending[0] == "flock" and x.can_run() != ms["enabled"][x.idx]:
                        ctx.disagree("kernel grant (real stand-in vs model)", dict(case), x.can_run(), ms["enabled"][x.idx])
            if steps > 400:
                ctx.violation("schedule does not terminate", case)
                break
    finally:
        sched.shutdown()
        pathutils.threading, pathutils.fcntl = saved[0], saved[1]
        if saved[2] is None:
            del pathutils.open
        else:
            pathutils.open = saved[2]
    ctx.case("flock:%dthreads" % nthreads, sample={"plan": case["plan"], "schedule": case["schedule"][:40]},
             key=[case["plan"], case["schedule"]], nontrivial=contended)


# ----------------------------------------------------------------------------------------------- LockDict

def run_dict_schedule(ctx, rng, nthreads, cycles):
    import radicale.storage.multifilesystem_nolock as nolock
    sched = Sched()
    standin = make_standins(sched)
    saved = nolock.threading
    nolock.threading = standin
    ld = nolock.LockDict()
    keys = ["k1", "k2"]
    plan = [[rng.choice(keys) for _ in range(cycles)] for _ in range(nthreads)]
    raises = [[rng.random() < 0.25 for _ in range(cycles)] for _ in range(nthreads)]     # the holder leaves its section by an exception

    def fn(me):
        for k, boom in zip(plan[me.idx], raises[me.idx]):
            me.key = k
            me.park(("start",))
            try:
                with ld.acquire(k):
                    me.park(("body",))
                    if boom:
                        raise BodyError()
            except BodyError:
                pass
    threads = [LThread(sched, i, fn) for i in range(nthreads)]
    case = {"lock": "lockdict", "plan": plan, "body_raises": raises, "schedule": []}
    waited = False
    try:
        for t in threads:
            t.start()
        sid = ctx.driver.ask1({"m": "lock", "kind": "dict", "op": "new"})["sid"] if ctx.driver else None
        model_q = {k: [] for k in keys}
        arrival = {k: [] for k in keys}
        served = {k: [] for k in keys}
        steps = 0
        while True:
            live = [t for t in threads if t.state != "done"]
            if not live:
                break
            enabled = [t for t in live if t.can_run()]
            if len(enabled) < len(live):
                waited = True
            if not enabled:
                ctx.violation("deadlock in LockDict", case)
                break
            t = rng.choice(enabled)
            case["schedule"].append(t.idx)
            sched.run(t)
            steps += 1
            if t.error:
                ctx.violation("LockDict raised %r" % t.error, case)
                break
            real_q = {k: [w.creator.idx for w in ld._dict.get(k, [])] for k in keys}
            if t.state == "parked" and t.pending[0] == "body":
                served[t.key].append(t.idx)
            inside = {}
            for x in threads:
                if x.state == "parked" and x.pending[0] == "body":
                    inside.setdefault(x.key, []).append(x.idx)
            for k, v in inside.items():
                if len(v) > 1:
                    ctx.violation("two threads hold the cache lock for the same key", case, 1, v)
            for k in keys:
                # model ops derived from the observable effect on the queue
                if len(real_q[k]) == len(model_q[k]) + 1 and real_q[k][:-1] == model_q[k]:
                    arrival[k].append(real_q[k][-1])
                    if sid is not None:
                        a = ctx.driver.ask1({"m": "lock", "kind": "dict", "op": "enter", "sid": sid, "key": k, "t": real_q[k][-1]})
                        model_q[k] = a["queue"]
                    else:
                        model_q[k] = list(real_q[k])
                elif len(real_q[k]) == len(model_q[k]) - 1:
                    if sid is not None:
                        a = ctx.driver.ask1({"m": "lock", "kind": "dict", "op": "leave", "sid": sid, "key": k})
                        model_q[k] = a["queue"]
                    else:
                        model_q[k] = list(real_q[k])
                if real_q[k] != model_q[k]:
                    ctx.disagree("LockDict queue vs model", dict(case), real_q, model_q)
                # holder = head of the queue; everybody else in the queue is blocked or about to block
                if inside.get(k) and inside[k][0] != model_q[k][0]:
                    ctx.disagree("LockDict holder is not the head of the queue", dict(case), inside[k], model_q[k])
            if steps > 600:
                ctx.violation("schedule does not terminate", case)
                break
        for k in keys:
            if served[k] != arrival[k]:
                ctx.violation("waiters for key %s served out of arrival order" % k, case, arrival[k], served[k])
    finally:
        sched.shutdown()
        nolock.threading = saved
    ctx.case("lockdict:%dthreads" % nthreads, sample={"plan": plan, "schedule": case["schedule"][:40]},
             key=[plan, case["schedule"]], nontrivial=waited)


def wsgi_entry_level(ctx):
    """the entry point for external WSGI servers (`radicale.application`) builds the one Application of the process on the first request;
    several first requests at once (a threaded server right after start) must end up with one Application - hence one storage object and,
    with the in-process lock of multifilesystem_nolock, one lock.  Real threads; the construction is stretched so that they overlap"""
    import io
    import shutil
    import tempfile
    import threading
    import time
    import wsgiref.util
    import radicale
    from radicale.app import Application
    for rnd in range(ctx.n(3, 20)):
        nthreads = 2 + rnd % 4
        folder = tempfile.mkdtemp(prefix="rverif-c11w-")
        conf_path = folder + "/config"
        with open(conf_path, "w") as f:
            f.write("[storage]\ntype = multifilesystem_nolock\nfilesystem_folder = %s/store\n[auth]\ntype = none\n[logging]\nlevel = critical\n" % folder)
        built = []
        orig_init = Application.__init__

        def slow_init(self, configuration):
            time.sleep(0.05)
            orig_init(self, configuration)
            built.append(self)
        saved = (radicale._application_instance, radicale._application_config_path)
        radicale._application_instance, radicale._application_config_path = None, None
        Application.__init__ = slow_init
        served = []
        try:
            barrier = threading.Barrier(nthreads)

            def first_request():
                environ = {"REQUEST_METHOD": "OPTIONS", "PATH_INFO": "/", "RADICALE_CONFIG": conf_path, "wsgi.errors": io.StringIO()}
                wsgiref.util.setup_testing_defaults(environ)
                barrier.wait(timeout=10)
                list(radicale.application(environ, lambda st, hd: served.append(st)))
            ts = [threading.Thread(target=first_request, daemon=True) for _ in range(nthreads)]
            for t in ts:
                t.start()
            for t in ts:
                t.join(timeout=30)
            storages = {id(a._storage) for a in built}
            locks = {id(a._storage._lock) for a in built if hasattr(a._storage, "_lock")}
        finally:
            Application.__init__ = orig_init
            radicale._application_instance, radicale._application_config_path = saved
            from common import quiet_radicale
            quiet_radicale()
            shutil.rmtree(folder, ignore_errors=True)
        case = {"first_requests_at_once": nthreads, "applications_built": len(built), "storage_objects": len(storages), "storage_locks": len(locks),
                "answers": served}
        ctx.case("wsgi-entry:%d" % nthreads, sample=case, key=["wsgi-entry", rnd], nontrivial=True)
        if len(built) != 1 or len(locks) > 1:
            ctx.violation("%d requests arriving together at the WSGI entry point built %d Application objects (%d storage locks): requests "
                          "served by different ones do not exclude each other" % (nthreads, len(built), len(locks)), case)
        if len(served) != nthreads:
            ctx.violation("only %d of %d first requests were answered" % (len(served), nthreads), case)


def exception_in_section_level(ctx):
    """leaving a locked section by an exception releases the lock like leaving it normally does (the model's `release` step has
    no other variant): afterwards `locked` is empty and both modes can be taken again - for the flock lock, the in-process lock of
    multifilesystem_nolock and its keyed lock, after sections in either mode, nested readers included"""
    import os
    import shutil
    import tempfile
    import radicale.storage.multifilesystem_nolock as nolock
    from radicale import pathutils
    rng = ctx.rng("exc")

    def try_take(take, m):
        """enter and leave a section in mode m on another thread; None, or what went wrong (an exception, or no progress in 2 s)"""
        res = []

        def body():
            try:
                with take(m):
                    pass
                res.append(None)
            except Exception as e:      # noqa
                res.append("raises %r" % e)
        t = real_threading.Thread(target=body, daemon=True)
        t.start()
        t.join(2.0)
        return res[0] if res else "blocks for ever"
    tmp = tempfile.mkdtemp(prefix="rverif-c11-")
    try:
        for i in range(ctx.n(40, 400)):
            kind = rng.choice(["flock", "cv", "dict"])
            modes = [rng.choice("rw") for _ in range(rng.randint(1, 3))]
            if kind == "flock":
                lock = pathutils.RwLock(os.path.join(tmp, ".Radicale.lock"))
                take = lock.acquire
            elif kind == "cv":
                lock = nolock.RwLock()
                take = lock.acquire
            else:
                lock = nolock.LockDict()
                take = lambda m: lock.acquire("k")             # noqa: E731  (a mutex per key)
            case = {"lock": kind, "sections left by an exception (mode)": modes}
            problem = None
            for m in modes:
                try:
                    with take(m):
                        if m == "r" and kind != "dict" and rng.random() < 0.3:
                            with take("r"):
                                raise KeyError("inside the inner reader section")
                        raise KeyError("inside the section")
                except KeyError:
                    pass
                except Exception as e:
                    problem = "entering the next section failed: %r" % e
                    break
                if kind != "dict" and getattr(lock, "locked", "") != "":
                    problem = "`locked` is %r after the section was left by an exception" % lock.locked
                    break
            if problem is None:
                for m in ("w", "r", "w"):
                    bad = try_take(take, m)
                    if bad:
                        problem = "afterwards taking the lock in mode %s %s" % (m, bad)
                        break
            ctx.case("exception-in-section:%s" % kind, sample=case, key=["exc", i], nontrivial=True)
            if problem:
                ctx.violation("the lock is not released when its section is left by an exception - " + problem, case)
    finally:
        shutil.rmtree(tmp, ignore_errors=True)


def run(ctx):
    ctx.extra["rule"] = ("random schedules of 2-5 logical threads x 1-3 acquire/release cycles in mode r or w (2 keys for the keyed lock), one "
                         "synchronisation operation per step; a case = (plan, schedule); non-trivial = some thread had to wait")
    ctx.trusted += ["cooperative stand-ins for threading.Lock/Condition, fcntl.flock and open (harness/props/c11.py)",
                    "kernel flock is a correct readers-writer lock on open file descriptions", "fair scheduling for 'eventually'"]
    rng = ctx.rng("sched")
    n = ctx.n(250, 20000)
    for i in range(n):
        run_cv_schedule(ctx, rng, rng.randint(2, 5), rng.randint(1, 3))
    for i in range(n):
        run_flock_schedule(ctx, rng, rng.randint(2, 5), rng.randint(1, 3))
    for i in range(n):
        run_dict_schedule(ctx, rng, rng.randint(2, 5), rng.randint(1, 3))
    wsgi_entry_level(ctx)
    exception_in_section_level(ctx)
