"""C06 — requests cannot escape the storage folder or touch internal files.

Theorems: lean/Props/C06.lean.  Correspondence:
 (a) sanitize_path, both safe-component predicates, path_to_filesystem (name part), the sync-token name check
     and shlex.quote against the model on generated strings; real /bin/sh reads shlex.quote(s) back as s;
 (b) the interposer in observe mode around requests whose six client channels (path, Destination, multiget
     hrefs, sync-token, X-Script-Name, login) carry hostile strings: every path the server touches lies in the
     storage folder (or belongs to the interpreter / the packaged web folder), decoy files are never read,
     reserved names are never created, read, listed, overwritten or deleted as items or collections, the hook
     shell executes nothing but the configured command.
The oracle of (b) is independent of the Lean model.
"""
import logging
import os
import shlex
import shutil
import subprocess
import sys
import tempfile
from xml.sax.saxutils import escape as xml_escape

import interposer
interposer.reexec_with_preload()

import fsobs  # noqa: E402
import scenarios  # noqa: E402
from common import App, disk_snapshot, permissive_rights  # noqa: E402

PROP_FILES = ["Props/C06.lean"]
LEVEL = "proof"
MARKER = "DECOY-7f3a9c-SECRET"


def chars(s):
    return [ord(c) for c in s]


def unchars(a):
    return "".join(chr(x) for x in a)


SEGS = ["..", ".", "", "a", "u", "cal", ".Radicale.props", ".Radicale.cache", ".Radicale.lock", ".Radicale.tmp-x", "item",
        "x~", "~", ".hidden", "a.ics", "é", "a b", "\\", "..\\..", "%2e%2e", "%2F", "..%2f", "a\\b", "decoy", "secret.ics",
        "collection-root", "...", "..a", ".a.", "a" * 300, "‮", "con", "a:b",
        # compatibility characters that NFKC / NFKD fold to ".", "/", "~" (full-width and small forms): names like any other, never dots or separators
        "\uff0e\uff0e", "\uff0eRadicale.cache", "\uff0ehidden.ics", "a\uff0fb", "\uff0e\uff0e\uff0f\uff0e\uff0e\uff0fdecoy\uff0fsecret.ics", "x\uff5e",
        "\ufe52\ufe52", "\u2024\u2024", "\u2215decoy", "\uff0eRadicale.cache\uff0f\uff0e\uff0e\uff0f\uff0e\uff0e\uff0f\uff0e\uff0e\uff0f\uff0e\uff0e\uff0fpwned"]


SHELLSEGS = ["$(touch pwned)", "`touch pwned`", ";touch pwned;", "a'b", 'a"b', "a|touch pwned", "&touch pwned&", "$HOME", "*", "a>pwned",
             "a b", "x;y", "'", "''", "a'; touch pwned; '", "a\\'b", "$IFS", "a\tb", "é'", "${PATH}", "a.ics", "-rf", "#x", "(x)", "!", "~root"]


def gen_path(rng, lead=None):
    n = rng.randint(0, 7)
    segs = [rng.choice(SEGS) for _ in range(n)]
    lead = rng.choice(["/", "", "//", "///", "/u/cal/", "/u/"]) if lead is None else lead
    return lead + "/".join(segs) + rng.choice(["", "/", "//"])


def function_level(ctx):
    from radicale import pathutils
    rng = ctx.rng("fn")
    n = ctx.n(3000, 100000)
    strs = [gen_path(rng) for _ in range(n)]
    comps = [rng.choice(SEGS) if rng.random() < 0.7 else "".join(rng.choice(list("ab./~\\ 'é")) for _ in range(rng.randint(0, 5)))
             for _ in range(n // 3)]
    toks = ["".join(rng.choice("0123456789abcdefABCDEFg/.~") for _ in range(rng.choice([63, 64, 64, 64, 65, 0, 10]))) for _ in range(n // 10)]
    toks += ["a" * 64, "0123456789abcdef" * 4, "." * 64, "/" * 64, "../" * 21 + "a", "A" * 64, "x/" + "0123456789abcdef" * 4,
             "../" + "0123456789abcdef" * 4, "/tmp/" + "0123456789abcdef" * 4, "0123456789abcdef" * 4 + "0", ("0123456789abcdef" * 4)[:63]]
    toks = [t for t in toks if "\x00" not in t]
    reqs = []
    for s in strs:
        reqs.append({"m": "quote", "op": "sanitize", "s": chars(s)})
    for c in comps:
        reqs.append({"m": "quote", "op": "safe", "s": chars(c)})
    sane_list = [pathutils.strip_path(pathutils.sanitize_path(s)) for s in strs[: n // 2]]
    for s in sane_list:
        reqs.append({"m": "quote", "op": "tofs", "s": chars(s)})
    for t in toks:
        reqs.append({"m": "quote", "op": "token", "s": chars(t)})
    ans = ctx.driver.ask(reqs) if ctx.driver else None
    k = 0
    for s in strs:
        impl = pathutils.sanitize_path(s)
        ctx.case("fn:sanitize", sample={"s": s[:80], "sanitized": impl[:80]}, key=s, nontrivial=impl != s)
        # oracle: shape
        parts = impl.strip("/").split("/") if impl.strip("/") else []
        if not impl.startswith("/") or any(p in ("", ".", "..") for p in parts) or pathutils.sanitize_path(impl) != impl:
            ctx.violation("sanitize_path result is not a clean absolute path", {"s": s}, None, impl)
        if ans is not None:
            if unchars(ans[k]["r"]) != impl:
                ctx.disagree("sanitize_path vs model", {"s": s}, impl, unchars(ans[k]["r"]))
            k += 1
    for c in comps:
        impl = {"comp": pathutils.is_safe_path_component(c), "fs": pathutils.is_safe_filesystem_path_component(c)}
        ctx.case("fn:safe", sample={"c": c[:40], **impl}, key=c, nontrivial=impl["comp"] != impl["fs"])
        if impl["fs"] and (c.startswith(".") or c.endswith("~") or "/" in c or c in ("", ".", "..")):
            ctx.violation("reserved name accepted as a file-system component", {"c": c})
        if ans is not None:
            if {"comp": ans[k]["comp"], "fs": ans[k]["fs"]} != impl:
                ctx.disagree("safe-component predicates vs model", {"c": c}, impl, ans[k])
            k += 1
    for s in sane_list:
        try:
            p = pathutils.path_to_filesystem("/r", s)
            impl = {"ok": p}
        except ValueError as e:
            impl = {"unsafe": True}
        ctx.case("fn:tofs", sample={"sane": s[:60], "result": str(impl)[:80]}, key=["tofs", s], nontrivial="ok" in impl and bool(s))
        if "ok" in impl:
            relp = os.path.relpath(impl["ok"], "/r")
            if impl["ok"] != "/r" and (relp.startswith("..") or not os.path.normpath(impl["ok"]).startswith("/r/")):
                ctx.violation("path_to_filesystem leaves the root", {"sane": s}, "below /r", impl["ok"])
        if ans is not None:
            a = ans[k]
            k += 1
            if "ok" in impl:
                m = "/r" + "".join("/" + unchars(c) for c in a.get("ok", [])) if "ok" in a else None
                if m != impl["ok"]:
                    ctx.disagree("path_to_filesystem vs model", {"sane": s}, impl, a)
            elif "unsafe" not in a:
                ctx.disagree("path_to_filesystem vs model", {"sane": s}, impl, a)
    # the same on a root in which every generated component really exists (a name being present must not make it acceptable)
    real_root = tempfile.mkdtemp(prefix="rverif-c06-tofs-")
    try:
        made = 0
        for s in sane_list:
            parts = [c for c in s.split("/") if c]
            if not parts or made > 400 or any(len(c) > 200 or "\x00" in c for c in parts) or any(c in (".", "..") for c in parts):
                continue
            try:
                os.makedirs(os.path.join(real_root, *parts), exist_ok=True)
                made += 1
            except OSError:
                continue
            spec_ok = all(pathutils.is_safe_filesystem_path_component(c) for c in parts)
            try:
                pathutils.path_to_filesystem(real_root, "/".join(parts))
                got_ok = True
            except ValueError:
                got_ok = False
            ctx.case("fn:tofs-existing", sample={"sane": "/".join(parts)[:60], "accepted": got_ok}, key=["tofs-x", "/".join(parts)], nontrivial=not spec_ok)
            if got_ok and not spec_ok:
                ctx.violation("path_to_filesystem accepts %r because the components exist on disk (a reserved name is among them)" % "/".join(parts)[:120],
                              {"sane": "/".join(parts)[:200]}, "refused", "accepted")
    finally:
        shutil.rmtree(real_root, ignore_errors=True)
    # the token-name check is a local function of sync(): its verdict is read off the real sync() — "Malformed token" or not
    tok_app = App({"auth": {"type": "none"}})
    tok_app.request("MKCALENDAR", "/u/t/", login="u:pw")
    tok_coll = next(iter(tok_app.storage.discover("/u/t/")))

    def real_token_ok(t):
        try:
            with tok_app.storage.acquire_lock("r"):
                tok_coll.sync("http://radicale.org/ns/sync/" + t)
            return True
        except ValueError as e:
            return not str(e).startswith("Malformed token")
        except Exception:
            return True
    toks = [t for t in toks if "\x00" not in t]
    for t in toks:
        impl = real_token_ok(t)
        spec = len(t) == 64 and all(c in "0123456789abcdef" for c in t)
        ctx.case("fn:token", sample={"t": t[:20] + "..", "ok": impl}, key=["tok", t], nontrivial=impl)
        if impl != spec:
            ctx.violation("sync() %s the token name %r (a token name is 64 lower-case hex digits)" % ("accepts" if impl else "refuses", t[:120]),
                          {"token": t[:200]}, spec, impl)
        if ans is not None:
            if ans[k]["r"] != impl:
                ctx.disagree("token name check vs model", {"t": t}, impl, ans[k]["r"])
            k += 1
    tok_app.close()


def shell_level(ctx):
    rng = ctx.rng("sh")
    n = ctx.n(600, 20000)
    alpha = list("ab 'x\"$`\\;&|<>(){}*?~#!\n\t=%@:,./-_é") + ["$(touch pwned)", "`id`", "'; rm -rf x; '", "$HOME", "\\'", "''"]
    strs = ["".join(rng.choice(alpha) for _ in range(rng.randint(0, 8))) for _ in range(n)]
    strs = [s for s in strs if "\x00" not in s]
    # real shell, batched
    script = "".join("printf '%%s\\0' %s\n" % shlex.quote(s) for s in strs)
    # (the script goes through stdin: as an argument it exceeds the kernel's limit in the thorough tier)
    out = subprocess.run(["/bin/sh", "-s"], input=script.encode("utf-8", "surrogateescape"), stdout=subprocess.PIPE, stderr=subprocess.PIPE,
                         env=interposer.clean_env())
    got = out.stdout.decode("utf-8", "surrogateescape").split("\0")[:-1]
    if len(got) != len(strs):
        ctx.violation("shell output has %d fields for %d quoted strings (splitting or failure)" % (len(got), len(strs)), {"stderr": out.stderr.decode()[:200]})
        got = got + [None] * (len(strs) - len(got))
    reqs = []
    for s in strs:
        reqs.append({"m": "quote", "op": "shquote", "s": chars(s)})
    ans = ctx.driver.ask(reqs) if ctx.driver else None
    words = ctx.driver.ask([{"m": "quote", "op": "shwords", "s": chars(shlex.quote(s))} for s in strs]) if ctx.driver else None
    for i, s in enumerate(strs):
        q = shlex.quote(s)
        ctx.case("sh:quote", sample={"s": s, "quoted": q}, key=["sh", s], nontrivial=q != s)
        if got[i] != s:
            ctx.violation("/bin/sh does not read shlex.quote(s) back as s", {"s": s, "quoted": q}, s, got[i])
        if ans is not None:
            if unchars(ans[i]["r"]) != q:
                ctx.disagree("shlex.quote vs model", {"s": s}, q, unchars(ans[i]["r"]))
            w = words[i]["r"]
            if w is None or [unchars(x) for x in w] != [s]:
                ctx.disagree("model shell on shlex.quote(s)", {"s": s}, [s], w)


ALLOWED_PREFIXES = None
HEX64 = "0123456789abcdef" * 4


def allowed_outside(path):
    global ALLOWED_PREFIXES
    if ALLOWED_PREFIXES is None:
        import radicale
        ALLOWED_PREFIXES = [sys.prefix, sys.base_prefix, os.path.dirname(os.path.dirname(radicale.__file__)),
                            "/proc/", "/dev/", "/etc/localtime", "/usr/share/zoneinfo", "/etc/mime.types", "/usr/lib/",
                            "/lib/", "/usr/local/lib/", "/etc/ld.so", "/bin/sh", "/usr/bin/", "/bin/", "/etc/passwd__never"]
    return any(path == p or path.startswith(p.rstrip("/") + "/") or (p.endswith("/") and path.startswith(p)) for p in ALLOWED_PREFIXES)


RESERVED = [".Radicale.props", ".Radicale.cache", ".Radicale.lock", ".Radicale.tmp-x", "x~", ".hidden", "~"]


def end_to_end(ctx):
    rng = ctx.rng("e2e")
    n = ctx.n(2000, 40000)
    base = tempfile.mkdtemp(prefix="rverif-c06-")
    folder = os.path.join(base, "storage")
    decoy = os.path.join(base, "decoy")
    os.makedirs(decoy)
    with open(os.path.join(decoy, "secret.ics"), "w") as f:
        f.write(scenarios.ev("decoy", MARKER))
    with open(os.path.join(base, "secret.ics"), "w") as f:
        f.write(scenarios.ev("decoy2", MARKER))
    with open(os.path.join(decoy, HEX64), "w") as f:           # a file outside the storage whose name looks like a sync-token name
        f.write(MARKER)
    rec = fsobs.Recorder()
    # the hook program records its argument vector: arguments end with RS (036), invocations with GS (035)
    script = os.path.join(base, "hookrec")
    with open(script, "w") as f:
        f.write("#!/bin/sh\nfor a in \"$@\"; do printf '%s\\036' \"$a\"; done >> hook.out\nprintf '\\035' >> hook.out\n")
    os.chmod(script, 0o755)
    tmpl = [script, "%(user)s", "%(path)s", "%(cwd)s", "%(user)s"]
    hook = " ".join(tmpl)
    tmpl_tokens = [{"%(user)s": "user", "%(path)s": "path", "%(cwd)s": "cwd"}.get(w) or chars(w) for w in tmpl]
    conf = {"storage": {"hook": hook}, "auth": {"type": "none"}, "rights": permissive_rights(), "web": {"type": "internal"}}
    tap = HookTap()
    import radicale.log
    lg = radicale.log.logger
    try:
        with App(conf, folder=folder) as app:
            lg.addHandler(tap)
            lg.setLevel(logging.DEBUG)
            scenarios.build_store(app, 0)
            # reserved names that really exist in a collection folder (editor backup, hidden draft): never served
            caldir = os.path.join(folder, "collection-root", "u", "cal")
            for planted in ("event1.ics~", ".draft.ics"):
                with open(os.path.join(caldir, planted), "w") as pf:
                    pf.write(scenarios.ev("planted-" + planted.strip(".~"), MARKER))
            methods = ["GET", "PUT", "DELETE", "PROPFIND", "MKCOL", "MKCALENDAR", "MOVE", "REPORT", "PROPPATCH", "HEAD", "OPTIONS", "POST"]
            for i in range(n):
                method = methods[i % len(methods)]
                channel = rng.choice(["path", "path", "dest", "href", "href-reserved", "token", "script", "login", "reserved", "web", "hookpath", "uid"])
                path = "/u/cal/a.ics"
                env = {}
                body = None
                login = scenarios.LOGIN
                hostile = gen_path(rng)
                if channel == "path":
                    path = hostile
                elif channel == "uid":
                    # whole-collection upload: the item file names are derived from the UIDs in the body
                    method = "PUT"
                    path = "/u/up%d/" % i
                    uids = [rng.choice([".Radicale.hidden", ".Radicale.cache", ".Radicale.props", ".x", "x~", "~", "..", ".", "a/b", "../../decoy/secret",
                                        "a\\b", ".Radicale.lock", ".Radicale.tmp-1", "ok", "é", "con", "a" * 300, " ", ""]) for _ in range(rng.randint(1, 3))]
                    if rng.random() < 0.5:
                        body = "BEGIN:VCALENDAR\r\nVERSION:2.0\r\nPRODID:x\r\n" + "".join(
                            "BEGIN:VEVENT\r\nUID:%s\r\nDTSTAMP:20240101T000000Z\r\nDTSTART:20240102T100000Z\r\nSUMMARY:s\r\nEND:VEVENT\r\n" % u
                            for u in dict.fromkeys(uids)) + "END:VCALENDAR\r\n"
                        env["CONTENT_TYPE"] = "text/calendar"
                    else:
                        body = "".join("BEGIN:VCARD\r\nVERSION:3.0\r\nUID:%s\r\nFN:f\r\nN:f;;;;\r\nEND:VCARD\r\n" % u for u in dict.fromkeys(uids))
                        env["CONTENT_TYPE"] = "text/vcard"
                elif channel == "hookpath":
                    # the only request whose path reaches the hook (%(path)s): PUT, with shell text in the item or collection name
                    method = "PUT"
                    path = rng.choice(["/u/cal/", "/u/", "/u/cal/", "/"]) + "/".join(rng.choice(SHELLSEGS) for _ in range(rng.randint(1, 2)))
                    if rng.random() < 0.3:
                        login = rng.choice(SHELLSEGS) + ":pw"
                elif channel == "reserved":
                    path = rng.choice(["/u/cal/", "/u/", "/u/plain/"]) + rng.choice(RESERVED) + rng.choice(["", "/", "/item/a.ics", "/item/", "/history/", "/sync-token/"])
                    if rng.random() < 0.3:
                        app.request("GET", "/u/cal/event1.ics", login=scenarios.LOGIN)        # (the item cache of /u/cal exists from now on)
                        app.request("REPORT", "/u/cal/", '<?xml version="1.0"?><D:sync-collection xmlns:D="DAV:"><D:sync-token/><D:prop><D:getetag/></D:prop>'
                                    '</D:sync-collection>', login=scenarios.LOGIN)
                elif channel == "web":
                    method = rng.choice(["GET", "POST", "HEAD"])
                    path = "/.web/" + gen_path(rng, lead="")
                elif channel == "dest":
                    method = "MOVE"
                    env["HTTP_DESTINATION"] = "http://127.0.0.1" + (hostile if hostile.startswith("/") else "/" + hostile)
                    env["HTTP_OVERWRITE"] = rng.choice(["T", "F"])
                elif channel == "href":
                    method = "REPORT"
                    path = "/u/cal/"
                    body = ('<?xml version="1.0"?><C:calendar-multiget xmlns:D="DAV:" xmlns:C="urn:ietf:params:xml:ns:caldav">'
                            '<D:prop><D:getetag/><C:calendar-data/></D:prop>%s</C:calendar-multiget>' %
                            "".join("<D:href>%s</D:href>" % xml_escape("".join(c for c in gen_path(rng) if ord(c) >= 32)) for _ in range(3)))
                elif channel == "href-reserved":
                    method = "REPORT"
                    path = "/u/cal/"
                    names = rng.sample(["event1.ics~", ".draft.ics", ".Radicale.props", ".Radicale.cache", ".Radicale.lock", "a.ics"], 3)
                    body = ('<?xml version="1.0"?><C:calendar-multiget xmlns:D="DAV:" xmlns:C="urn:ietf:params:xml:ns:caldav">'
                            '<D:prop><D:getetag/><C:calendar-data/></D:prop>%s</C:calendar-multiget>' %
                            "".join("<D:href>/u/cal/%s</D:href>" % xml_escape(nm) for nm in names))
                elif channel == "token":
                    method = "REPORT"
                    path = "/u/cal/"
                    # (names that end in 64 hex digits after something else: a path to an existing file outside the storage, relative and absolute)
                    tok = rng.choice(["http://radicale.org/ns/sync/" + rng.choice(["../../../decoy/secret.ics", "a" * 64, "../" * 21 + "a", "." * 64, "0" * 63 + "/",
                                                                                   "../" * rng.randint(1, 8) + "decoy/" + HEX64, decoy + "/" + HEX64,
                                                                                   "x/" + HEX64, "../" + HEX64, "." + HEX64, HEX64 + "/../" + HEX64,
                                                                                   HEX64.upper(), HEX64[:63], HEX64 + "0"]),
                                      "../../secret.ics", hostile])
                    body = ('<?xml version="1.0"?><D:sync-collection xmlns:D="DAV:"><D:sync-token>%s</D:sync-token><D:prop><D:getetag/></D:prop>'
                            '</D:sync-collection>' % xml_escape("".join(c for c in tok if ord(c) >= 32)))
                elif channel == "script":
                    env["HTTP_X_SCRIPT_NAME"] = "/" + gen_path(rng, lead="").rstrip("/")
                    path = hostile
                elif channel == "login":
                    method = rng.choice(["PUT", "MKCALENDAR", "PROPFIND"])
                    name = rng.choice(["../decoy", "..", "u/../../decoy", ".Radicale.cache", "a'; touch pwned; '", "$(touch pwned)", "`touch pwned`",
                                       "x; touch pwned", "a b", "u\ntouch pwned", "a|touch pwned", "&touch pwned", "é'\"$", "x~", ".dot"])
                    login = name + ":pw"
                    path = "/%s/c%d/" % (name.replace("\n", ""), i) if method != "PUT" else "/%s/c.ics" % name.replace("\n", "")
                if method == "PUT" and body is None:
                    body = scenarios.ev("h%d" % i)
                if method in ("PROPPATCH",) and body is None:
                    body = scenarios.PROPPATCH
                if not all(ord(c) < 0x110000 and not (0xD800 <= ord(c) < 0xE000) for c in path):
                    continue
                if os.path.isdir(caldir):
                    for planted in ("event1.ics~", ".draft.ics"):
                        pp = os.path.join(caldir, planted)
                        if not os.path.exists(pp):
                            with open(pp, "w") as pf:
                                pf.write(scenarios.ev("planted-" + planted.strip(".~"), MARKER))
                before = disk_snapshot(folder)
                hook_before = _hook_lines(folder)
                tap.commands = []
                rec.start()
                try:
                    st, hd, text = app.request(method, path, body, login=login, **env)
                except Exception as e:  # an exception escaping the WSGI app
                    st, hd, text = 599, {}, repr(e)
                ent, _ = rec.stop()
                after = disk_snapshot(folder)
                case = {"method": method, "channel": channel, "path": path[:200], "env": {k: v[:200] for k, v in env.items()},
                        "login": login, "status": st}
                ctx.case("e2e:%s" % channel, sample=case, key=case, nontrivial=True)
                # oracle 1: every touched path is inside the storage folder (or the interpreter's own)
                for e in ent:
                    if e["op"] in ("MARK", "close", "flock", "flock-req", "write", "fsync"):
                        continue
                    for p in (e["path"], e["path2"]):
                        if not p or p.startswith("<fd"):
                            continue
                        rp = os.path.normpath(p)
                        inside = rp == folder or rp.startswith(folder + "/")
                        if not inside and not allowed_outside(rp):
                            ctx.violation("the server touched %r (%s) outside the storage folder" % (p, e["op"]), case)
                        if e["op"] == "execve" and not p.endswith("/sh") and rp != script:
                            ctx.violation("the hook shell executed %r" % p, case)
                # oracle 1b: reserved names inside a collection are never opened as items nor looked up in the item cache
                for e in ent:
                    if e["op"] in ("open", "openw", "stat"):
                        rp = os.path.normpath(e["path"])
                        base_ = os.path.basename(rp)
                        parent_ = os.path.basename(os.path.dirname(rp))
                        internal = base_ in (".Radicale.props", ".Radicale.lock", ".Radicale.cache") or base_.startswith(".Radicale.tmp-") or base_.startswith(".Radicale.lock")
                        looks_reserved = base_.startswith(".") or base_.endswith("~")
                        if rp.startswith(folder + "/collection-root/") and looks_reserved and (
                                (not internal and e["op"] != "stat") or
                                (parent_ in ("item", "history") and os.path.basename(os.path.dirname(os.path.dirname(rp))) == ".Radicale.cache"
                                 and base_.startswith(".") and not base_.startswith(".Radicale.tmp-"))):
                            ctx.violation("a reserved name was accessed as an item: %s %s" % (e["op"], rp[len(folder):]), case)
                # oracle 2: decoy content never served
                if MARKER in text:
                    ctx.violation("content of a file outside the storage was served", case)
                # oracle 3: reserved names never created / deleted / served as items or collections
                changed = {k for k in set(before) | set(after) if before.get(k) != after.get(k)} - {"."}
                # the automatic creation of the authenticated user's home collection is not the request's doing
                home = login.split(":")[0]
                if before.get(home) is None and after.get(home) == "dir":
                    changed.discard(home)
                for k in changed:
                    comps = k.split("/")
                    bad = [c for c in comps if c not in (".",) and (c.startswith(".") and c != ".Radicale.props" or c.endswith("~"))]
                    if bad and after.get(k) is None:
                        continue        # gone together with the collection that was deleted or replaced
                    if bad or os.path.basename(k) == "pwned":
                        ctx.violation("a reserved name was created, changed or deleted in the collection tree: %s" % k, case)
                target = [c for c in path.split("/") if c]
                from radicale import pathutils
                sane = [c for c in pathutils.sanitize_path(path).strip("/").split("/") if c]
                if channel in ("path", "reserved") and any(not pathutils.is_safe_filesystem_path_component(c) for c in sane) \
                        and not (sane[:1] == [".web"] or sane[:1] == [".well-known"]):
                    if 200 <= st < 300 and method not in ("OPTIONS",):
                        ctx.violation("request on a reserved name answered %d" % st, case)
                    if {k for k in changed if after.get(k) is not None or not k.endswith(("~", ".draft.ics"))}:
                        ctx.violation("request on a reserved name changed the store", dict(case, changed=sorted(changed)[:5]))
                if os.path.exists(os.path.join(folder, "pwned")) or os.path.exists("pwned") or os.path.exists(os.path.join(base, "pwned")):
                    ctx.violation("client text was interpreted by the hook shell (file 'pwned' created)", case)
                # oracle 4: the hook program was started with exactly the template's words, placeholders replaced by the login
                # (or "Anonymous"), the file-system path of the request (PUT only) and the storage folder
                calls = _hook_lines(folder)[len(hook_before):]
                user = login.split(":")[0]
                root = os.path.join(folder, "collection-root")
                for argv in calls:
                    okpath = argv[1:2] == [root] or (method == "PUT" and argv[1:2] == [root + pathutils.sanitize_path(path)]) or \
                        (channel == "script" and len(argv) > 1 and argv[1].startswith(root))
                    if len(argv) != 4 or argv[0] != argv[3] or argv[2] != folder or not okpath or \
                            (pathutils.is_safe_path_component(user) and argv[0] != user):
                        ctx.violation("the hook program received %r: not the login, the request's file-system path and the storage folder"
                                      % (argv,), case)
                # correspondence: the command text and the words /bin/sh made of it against the model's hookCommand / words
                if ctx.driver and calls and len(tap.commands) == len(calls):
                    reqs = [{"m": "quote", "op": "hookcmd", "tmpl": tmpl_tokens, "user": chars(argv[0] if argv and argv[0] != "Anonymous" else ""),
                             "path": chars(argv[1][len(root):] if len(argv) > 1 and argv[1].startswith(root) else ""),
                             "folder": chars(folder), "root": chars(root)} for argv in calls]
                    for argv, cmd, a in zip(calls, tap.commands, ctx.driver.ask(reqs)):
                        mw = None if a.get("words") is None else [unchars(x) for x in a["words"]]
                        if mw is None or mw[1:] != argv or unchars(a["cmd"]) != cmd:
                            ctx.disagree("hook command vs model hookCommand/words", dict(case, command=cmd[:300]),
                                         {"command": cmd[:300], "argv": argv}, {"command": unchars(a["cmd"])[:300], "words": mw})
                elif calls and len(tap.commands) != len(calls):
                    ctx.disagree("number of hook runs vs logged commands", case, len(calls), len(tap.commands))
    finally:
        lg.removeHandler(tap)
        lg.setLevel(logging.CRITICAL)
        rec.close()
        shutil.rmtree(base, ignore_errors=True)


def _hook_lines(folder):
    """argument vectors of the hook program's invocations so far"""
    try:
        data = open(os.path.join(folder, "hook.out"), "rb").read().decode("utf-8", "surrogateescape")
    except OSError:
        return []
    return [inv.split("\x1e")[:-1] for inv in data.split("\x1d")[:-1]]


class HookTap(logging.Handler):
    def __init__(self):
        super().__init__(logging.DEBUG)
        self.commands = []

    def emit(self, record):
        try:
            msg = record.getMessage()
        except Exception:
            return
        if msg.startswith("Executing storage hook: '") and msg.endswith("'"):
            self.commands.append(msg[len("Executing storage hook: '"):-1])


def leftover_level(ctx):
    """states a crash leaves behind: the temporary directories of interrupted atomic writes (and other reserved names) inside a
    collection and inside its cache folders (item / history / sync-token).  They are internal files: every listing, sync and read of the
    collection answers as if they were not there, and none of them appears as a member (live or deleted) in any answer"""
    import itertools
    from common import parse_multistatus
    from radicale import pathutils
    sync = ('<?xml version="1.0"?><D:sync-collection xmlns:D="DAV:"><D:sync-token>%s</D:sync-token><D:prop><D:getetag/></D:prop>'
            '</D:sync-collection>')
    plist = '<?xml version="1.0"?><D:propfind xmlns:D="DAV:"><D:prop><D:getetag/><D:sync-token/></D:prop></D:propfind>'
    names = [".Radicale.tmp-k3j2hd", ".Radicale.tmp-left/", ".hidden", "draft~", ".Radicale.lock"]
    layouts = list(itertools.product([False, True], repeat=2))
    for (hist_sub, tok_sub), where in itertools.product(layouts if ctx.tier == "thorough" else layouts[::3], ["history", "sync-token", "item", "collection"]):
        conf = {"storage": {"use_cache_subfolder_for_history": str(hist_sub), "use_cache_subfolder_for_synctoken": str(tok_sub)},
                "auth": {"type": "none"}, "rights": permissive_rights()}
        with App(conf) as app:
            login = scenarios.LOGIN
            scenarios.build_store(app, 0)
            st0, _, t0 = app.request("REPORT", "/u/cal/", sync % "", login=login)
            tok0 = parse_multistatus(t0)[2] if st0 == 207 else None
            app.request("PUT", "/u/cal/gone.ics", scenarios.ev("gone"), login=login)
            app.request("REPORT", "/u/cal/", sync % "", login=login)
            app.request("DELETE", "/u/cal/gone.ics", login=login)
            # plant the left-overs in every folder of that kind below the storage folder
            planted = []
            for dp, dn, fn in os.walk(app.folder):
                rel = dp[len(app.folder):]
                hit = (where == "collection" and rel == "/collection-root/u/cal") or \
                      (where != "collection" and os.path.basename(dp) == where and ".Radicale.cache" in rel and "/u/cal" in rel)
                if hit:
                    for nm in names:
                        target = os.path.join(dp, nm.rstrip("/"))
                        if nm.endswith("/") or nm.startswith(".Radicale.tmp-"):
                            os.makedirs(target, exist_ok=True)
                            with open(os.path.join(target, "gone.ics"), "w") as f:
                                f.write("partial")
                        elif not os.path.exists(target):
                            with open(target, "w") as f:
                                f.write("left-over")
                        planted.append(target[len(app.folder):])
            case0 = {"where": where, "history_subfolder": hist_sub, "synctoken_subfolder": tok_sub, "planted": planted}
            if not planted:
                ctx.disagree("no folder %r found to plant left-overs in" % where, case0, "none", "one")
                continue
            steps = [("REPORT", "/u/cal/", sync % "", {}), ("REPORT", "/u/cal/", sync % (tok0 or ""), {}), ("PROPFIND", "/u/cal/", plist, {"HTTP_DEPTH": "1"}),
                     ("PUT", "/u/cal/new.ics", scenarios.ev("new"), {}), ("REPORT", "/u/cal/", sync % (tok0 or ""), {}), ("GET", "/u/cal/", None, {}),
                     ("DELETE", "/u/cal/new.ics", None, {}), ("REPORT", "/u/cal/", sync % "", {})]
            for k, (method, path, body, env) in enumerate(steps):
                try:
                    st, hd, text = app.request(method, path, body, login=login, **env)
                except Exception as e:
                    st, hd, text = 599, {}, repr(e)
                case = dict(case0, step=k, method=method, path=path, status=st, body=(body or "")[:120])
                ctx.case("leftover:%s:%s" % (where, method), sample=case, key=[where, hist_sub, tok_sub, k], nontrivial=True)
                if not 200 <= st < 300:
                    ctx.violation("with left-over temporary names in the %s folder %s %s answers %d" % (where, method, path, st), case)
                    continue
                if st == 207:
                    ms, order, _ = parse_multistatus(text)
                    bad = [h for h in order if any(not pathutils.is_safe_filesystem_path_component(c) for c in h.strip("/").split("/") if c)]
                    if bad:
                        ctx.violation("internal names are listed as members: %s" % bad, case)
                if "partial" in text or "left-over" in text:
                    ctx.violation("content of an internal file was served", case)


def run(ctx):
    ctx.extra["rule"] = ("(a) path-like strings from dot/empty/encoded/backslash/unicode/reserved segments for sanitize_path, the component "
                         "predicates, path_to_filesystem, token names; (b) shell metacharacter strings through shlex.quote and the real /bin/sh; "
                         "(c) requests of all 12 methods with a hostile string in one of the six client channels (plus reserved names and the web "
                         "folder) under the syscall interposer.  distinct by canonical JSON of the case")
    ctx.trusted += ["interpose/interpose.c", "/bin/sh word splitting agrees with the model on shlex.quote output (validated on every run)",
                    "POSIX branch only (no drive letters / NTFS streams); case-sensitive file system"]
    function_level(ctx)
    shell_level(ctx)
    end_to_end(ctx)
    leftover_level(ctx)
