"""Common machinery of the verification harness (see DESIGN.md section 3).

Everything here runs under /venv/bin/python, whose ``radicale`` is the editable
install of /repo, so the implementation under test is always the current tree.
"""
import base64
import contextlib
import fcntl
import hashlib
import io
import json
import logging
import os
import random
import re
import shutil
import subprocess
import sys
import tempfile
import time
import wsgiref.util
import xml.etree.ElementTree as ET

VERIF = os.path.dirname(os.path.dirname(os.path.abspath(__file__)))
LEAN = os.path.join(VERIF, "lean")
DRIVER_BIN = os.path.join(LEAN, ".lake", "build", "bin", "driver")
REPO = os.environ.get("VERIF_REPO", "/repo")
ALLOWED_AXIOMS = {"propext", "Classical.choice", "Quot.sound"}
FORBIDDEN = re.compile(
    r"\bsorry\b|\badmit\b|^\s*axiom\s|native_decide|bv_decide|implemented_by|"
    r"\bunsafe\s|maxHeartbeats\s+0\b|\bextern\b", re.M)


def strip_lean_comments(src):
    out = []
    i = 0
    depth = 0
    n = len(src)
    while i < n:
        if src.startswith("/-", i):
            depth += 1
            i += 2
            continue
        if depth and src.startswith("-/", i):
            depth -= 1
            i += 2
            continue
        if depth:
            if src[i] == "\n":
                out.append("\n")
            i += 1
            continue
        if src.startswith("--", i):
            j = src.find("\n", i)
            i = n if j < 0 else j
            continue
        if src[i] == '"':
            j = i + 1
            while j < n and src[j] != '"':
                j += 2 if src[j] == "\\" else 1
            out.append('""')
            i = j + 1
            continue
        out.append(src[i])
        i += 1
    return "".join(out)


# --------------------------------------------------------------------------
# Lean build, audit, driver
# --------------------------------------------------------------------------

@contextlib.contextmanager
def build_lock():
    path = os.path.join(VERIF, ".build.lock")
    with open(path, "w") as f:
        fcntl.flock(f, fcntl.LOCK_EX)
        try:
            yield
        finally:
            fcntl.flock(f, fcntl.LOCK_UN)


def lean_build(targets=None, clean_modules=None):
    """lake build (serialised).  Returns (ok, log)."""
    cmd = ["lake", "build"] + list(targets or [])
    with build_lock():
        p = subprocess.run(cmd, cwd=LEAN, stdout=subprocess.PIPE,
                           stderr=subprocess.STDOUT, text=True)
    return p.returncode == 0, p.stdout


def theorem_names(relpath):
    """Names of the theorems declared in a Props file (namespace aware)."""
    src = strip_lean_comments(open(os.path.join(LEAN, relpath)).read())
    names = []
    ns = []
    for line in src.splitlines():
        m = re.match(r"\s*namespace\s+(\S+)", line)
        if m:
            ns.append(m.group(1))
            continue
        m = re.match(r"\s*end\s+(\S+)", line)
        if m and ns and ns[-1] == m.group(1):
            ns.pop()
            continue
        m = re.match(r"\s*(?:@\[[^\]]*\]\s*)?(?:protected\s+)?theorem\s+(\S+)", line)
        if m:
            names.append(".".join(ns + [m.group(1)]))
    return names


def lean_audit(prop_files, extra_source_dirs=("RadicaleModel", "RadicaleProofs", "Props", "Driver", "Generated")):
    """Forbidden-token scan over all Lean sources + `#print axioms` of every
    property theorem.  Returns dict(ok, theorems, axioms, problems)."""
    problems = []
    for d in extra_source_dirs:
        for root, _, files in os.walk(os.path.join(LEAN, d)):
            for fn in files:
                if fn.endswith(".lean"):
                    p = os.path.join(root, fn)
                    src = strip_lean_comments(open(p).read())
                    for m in FORBIDDEN.finditer(src):
                        line = src.count("\n", 0, m.start()) + 1
                        problems.append("forbidden token %r in %s:%d" % (
                            m.group(0).strip(), os.path.relpath(p, LEAN), line))
    theorems = []
    for pf in prop_files:
        theorems += theorem_names(pf)
    axioms = {}
    if theorems:
        mods = [pf[:-5].replace("/", ".") for pf in prop_files]
        body = "".join("import %s\n" % m for m in mods)
        body += "".join("#print axioms %s\n" % t for t in theorems)
        os.makedirs(os.path.join(LEAN, ".lake"), exist_ok=True)
        tmp = os.path.join(LEAN, ".lake", "audit_%d.lean" % os.getpid())
        with open(tmp, "w") as f:
            f.write(body)
        try:
            p = subprocess.run(["lake", "env", "lean", tmp], cwd=LEAN,
                               stdout=subprocess.PIPE, stderr=subprocess.STDOUT, text=True)
        finally:
            os.unlink(tmp)
        out = p.stdout
        # messages look like: 'X' depends on axioms: [a, b]   or   'X' does not depend on any axioms
        flat = re.sub(r"\s+", " ", out)
        for t in theorems:
            m = re.search(r"'%s' depends on axioms: \[([^\]]*)\]" % re.escape(t), flat)
            if m:
                axioms[t] = [a.strip() for a in m.group(1).split(",") if a.strip()]
            elif re.search(r"'%s' does not depend on any axioms" % re.escape(t), flat):
                axioms[t] = []
            else:
                axioms[t] = None
                problems.append("theorem %s not found by #print axioms" % t)
        for t, ax in axioms.items():
            if ax is not None:
                bad = [a for a in ax if a not in ALLOWED_AXIOMS]
                if bad:
                    problems.append("theorem %s depends on non-standard axioms %s" % (t, bad))
        if p.returncode != 0 and not any(v is None for v in axioms.values()):
            problems.append("audit file did not elaborate: " + out[-400:])
    return {"ok": not problems, "theorems": theorems, "axioms": axioms, "problems": problems}


class Driver:
    """The compiled Lean model driver, JSON lines in / JSON lines out."""

    def __init__(self):
        self.p = subprocess.Popen([DRIVER_BIN], stdin=subprocess.PIPE, stdout=subprocess.PIPE,
                                  cwd=LEAN, text=True, bufsize=1 << 16)
        self.calls = 0

    def ask(self, reqs):
        """Send a batch; returns list of parsed answers (same length).  Chunks are kept below the pipe
        buffer size so that writer and reader cannot block each other."""
        if not reqs:
            return []
        out = []
        lines = [json.dumps(r, ensure_ascii=True) + "\n" for r in reqs]
        i = 0
        n = len(lines)
        while i < n:
            j = i
            size = 0
            while j < n and (j == i or (size + len(lines[j]) < 24000 and j - i < 400)):
                size += len(lines[j])
                j += 1
            self.p.stdin.write("".join(lines[i:j]))
            self.p.stdin.flush()
            for _ in range(j - i):
                line = self.p.stdout.readline()
                if not line:
                    raise RuntimeError("driver died")
                out.append(json.loads(line))
            i = j
        self.calls += len(reqs)
        return out

    def ask1(self, req):
        return self.ask([req])[0]

    def close(self):
        try:
            self.p.stdin.close()
            self.p.wait(timeout=10)
        except Exception:
            self.p.kill()


# --------------------------------------------------------------------------
# Check context: counting, verdict, evidence
# --------------------------------------------------------------------------

class HarnessError(Exception):
    pass


class Ctx:
    def __init__(self, prop, tier, seed, prop_files, level="proof"):
        self.prop = prop
        self.tier = tier
        self.seed = seed
        self.level = level
        self.prop_files = prop_files
        self.t0 = time.time()
        self.evaluations = 0
        self.strata = {}
        self.distinct = set()
        self.samples = []
        self.disagreements = []      # correspondence breaks
        self.violations = []         # property-level failing inputs (unlisted)
        self.known_hits = {}         # finding id -> description
        self.broken = []             # proof obligations that no longer check
        self.extra = {}
        self.assumptions = []
        self.trusted = []
        self.driver = None
        self.audit = None
        self.build_ok = None
        self.build_log = ""
        self.known = load_known_findings(prop)
        self.traces_validated = 0
        try:
            os.unlink(os.path.join(VERIF, "replays", "%s-%s-%d.json" % (prop, tier, seed)))
        except OSError:
            pass

    # ---- generation helpers
    def rng(self, name=""):
        h = hashlib.sha256(("%s|%s|%s" % (self.prop, self.seed, name)).encode()).digest()
        return random.Random(int.from_bytes(h[:8], "big"))

    def n(self, quick, thorough):
        return thorough if self.tier == "thorough" else quick

    def case(self, stratum, sample=None, key=None, nontrivial=True):
        self.evaluations += 1
        self.strata[stratum] = self.strata.get(stratum, 0) + 1
        if nontrivial:
            k = key if key is not None else sample
            try:
                self.distinct.add(hashlib.sha1(json.dumps(k, sort_keys=True, default=str).encode()).digest()[:10])
            except Exception:
                self.distinct.add(repr(k))
        if sample is not None and len(self.samples) < 6 and (
                self.strata[stratum] == 1 or len(self.samples) < 2):
            self.samples.append({"stratum": stratum, "case": sample})

    # ---- outcomes
    def disagree(self, name, case, impl, model):
        if len(self.disagreements) < 50:
            self.disagreements.append({"correspondence": name, "case": case, "implementation": impl, "model": model})
        else:
            self.disagreements.append(None)

    def violation(self, what, case, expected=None, actual=None, finding=None):
        """A concrete input on which the property fails on the implementation."""
        if finding is not None and finding in self.known and self.known[finding]["status"] == "known":
            self.known_hits.setdefault(finding, what)
            return
        if len(self.violations) < 50:
            self.violations.append({"what": what, "case": case, "expected": expected, "actual": actual})
        else:
            self.violations.append(None)

    def broke(self, name, detail=""):
        self.broken.append({"obligation": name, "detail": detail[-1500:]})

    # ---- lean
    def prepare_lean(self, pre_build=None):
        if pre_build:
            pre_build()
        # only this property's theorem files (and what they import) + the model driver: a proof obligation of
        # another property that no longer checks must not raise an alarm here
        targets = ["driver"] + [pf[:-5].replace("/", ".") for pf in self.prop_files]
        self.build_ok, self.build_log = lean_build(targets)
        if not self.build_ok:
            self.broke("lake build", self.build_log)
            lean_build(["driver"])          # the model driver is still needed for the search for a failing input
        if os.path.exists(DRIVER_BIN):
            try:
                self.driver = Driver()
            except Exception as e:  # pragma: no cover
                self.broke("driver start", repr(e))
        self.audit = lean_audit(self.prop_files) if self.build_ok else {
            "ok": False, "theorems": sum((theorem_names(p) for p in self.prop_files), []),
            "axioms": {}, "problems": ["build failed"]}
        if self.build_ok and not self.audit["ok"]:
            for pr in self.audit["problems"]:
                self.broke("axiom/forbidden-token audit", pr)
        if self.build_ok and self.tier == "thorough":
            # independent re-check of the compiled theorem files by Lean's external checker
            mods = [pf[:-5].replace("/", ".") for pf in self.prop_files]
            try:
                p = subprocess.run(["lake", "env", "leanchecker"] + mods, cwd=LEAN, stdout=subprocess.PIPE,
                                   stderr=subprocess.STDOUT, text=True, timeout=1800)
                self.extra["leanchecker"] = "ok" if p.returncode == 0 else "FAILED"
                if p.returncode != 0:
                    self.broke("leanchecker " + " ".join(mods), p.stdout[-600:])
            except (OSError, subprocess.TimeoutExpired) as e:
                self.extra["leanchecker"] = "not run: %r" % e

    # ---- finish
    def finish(self):
        wall = time.time() - self.t0
        if self.driver:
            self.driver.close()
        nviol = len(self.violations)
        ndis = len(self.disagreements)
        exit_code = 0
        lines = []
        for fid, what in sorted(self.known_hits.items()):
            lines.append("KNOWN-FINDING: property=%s %s: %s" % (self.prop, fid, what))
        replay = None
        if nviol or ndis or self.broken:
            os.makedirs(os.path.join(VERIF, "replays"), exist_ok=True)
            replay = os.path.join("replays", "%s-%s-%d.json" % (self.prop, self.tier, self.seed))
            kind = "failing-input" if nviol else "no-failing-input-found"
            with open(os.path.join(VERIF, replay), "w") as f:
                json.dump({
                    "property": self.prop, "kind": kind, "seed": self.seed, "tier": self.tier,
                    "broken_obligations": self.broken,
                    "violations": [v for v in self.violations if v][:10],
                    "correspondence_disagreements": [d for d in self.disagreements if d][:10],
                }, f, indent=1, default=str)
            if nviol:
                lines.append("VIOLATION property=%s replay=%s" % (self.prop, replay))
            else:
                lines.append("VIOLATION property=%s replay=%s no-failing-input-found" % (self.prop, replay))
            exit_code = 1
        theorems = self.audit["theorems"] if self.audit else []
        discharged = 0
        if self.audit and self.build_ok:
            for t in theorems:
                ax = self.audit["axioms"].get(t)
                if ax is not None and all(a in ALLOWED_AXIOMS for a in ax):
                    discharged += 1
        cov = {
            "obligations": max(len(theorems), 1),
            "discharged": discharged if theorems else 0,
            "checker_cmd": "cd lean && lake build && lake env lean <audit file with `#print axioms` of every theorem in %s>" % ", ".join(self.prop_files),
            "trusted_base": ["Lean 4.33.0 kernel", "axioms: propext, Classical.choice, Quot.sound (no native_decide, no bv_decide, no own axioms)"] + self.trusted,
            "theorems": theorems,
            "axioms_used": self.audit["axioms"] if self.audit else {},
            "evaluations": self.evaluations,
            "distinct_nontrivial": len(self.distinct),
            "rule": self.extra.pop("rule", "see strata"),
            "samples": self.samples or [{"note": "no generated case (lean-only run)"}],
            "strata": self.strata,
            "traces_validated_against_impl": self.traces_validated,
            "disagreements_checked": self.evaluations,
            "correspondence_disagreements": ndis,
            "known_findings_reproduced": sorted(self.known_hits),
            "lean_build_ok": bool(self.build_ok),
            "exhaustive": bool(self.extra.pop("exhaustive", False)),
        }
        cov.update(self.extra)
        ev = {
            "property_id": self.prop, "tier": self.tier, "seed": self.seed, "level": self.level,
            "coverage": cov, "assumptions": self.assumptions, "wall_s": round(wall, 2),
            "violations": nviol + (1 if (exit_code and not nviol) else 0),
        }
        os.makedirs(os.path.join(VERIF, "evidence"), exist_ok=True)
        with open(os.path.join(VERIF, "evidence", "%s.json" % self.prop), "w") as f:
            json.dump(ev, f, indent=1, default=str)
        for l in lines:
            print(l)
        print("%s %s seed=%d: evaluations=%d distinct=%d theorems=%d/%d disagreements=%d violations=%d known=%s wall=%.1fs" % (
            self.prop, self.tier, self.seed, self.evaluations, len(self.distinct), discharged, len(theorems),
            ndis, nviol, sorted(self.known_hits), wall))
        return exit_code


def load_known_findings(prop=None):
    p = os.path.join(VERIF, "known_findings.json")
    if not os.path.exists(p):
        return {}
    out = {}
    for e in json.load(open(p)):
        if prop is None or e["property"] == prop or prop in e.get("also", []):
            out[e["id"]] = e
    return out


# --------------------------------------------------------------------------
# In-process Radicale application
# --------------------------------------------------------------------------

def quiet_radicale():
    import radicale.log
    radicale.log.logger.setLevel(logging.CRITICAL)
    for h in list(radicale.log.logger.handlers):
        radicale.log.logger.removeHandler(h)
    radicale.log.logger.addHandler(logging.NullHandler())
    radicale.log.logger.propagate = False


class App:
    """A radicale Application on a scratch storage folder."""

    def __init__(self, conf=None, folder=None, keep=False):
        from radicale import config
        quiet_radicale()
        self.configuration = config.load()
        self.own_folder = folder is None
        self.folder = folder or tempfile.mkdtemp(prefix="rverif-")
        self.keep = keep
        base = {"storage": {"filesystem_folder": self.folder, "_filesystem_fsync": "False"},
                "auth": {"delay": "0"}}
        self.conf = {}
        self.configure(base)
        if conf:
            self.configure(conf)

    def configure(self, conf):
        from radicale import app
        if conf.get("storage", {}).get("filesystem_cache_folder") == "@tmp":
            # a separate cache folder next to the storage folder, removed with it
            conf = dict(conf, storage=dict(conf["storage"], filesystem_cache_folder=self.folder + "-cache"))
            os.makedirs(self.folder + "-cache", exist_ok=True)
        if conf.get("storage", {}).get("filesystem_cache_folder") == "@prefix":
            # a cache folder whose path is a string prefix of the storage folder's path (/srv/radicale and /srv/radicale-data)
            self.extra_dirs = getattr(self, "extra_dirs", []) + [self.folder[:-2]]
            conf = dict(conf, storage=dict(conf["storage"], filesystem_cache_folder=self.folder[:-2]))
            os.makedirs(self.folder[:-2], exist_ok=True)
        self.configuration.update(conf, "verif", privileged=True)
        for k, v in conf.items():
            self.conf.setdefault(k, {}).update(v)
        self.application = app.Application(self.configuration)

    def reopen(self):
        from radicale import app
        self.application = app.Application(self.configuration)

    @property
    def storage(self):
        return self.application._storage

    def close(self):
        if self.own_folder and not self.keep:
            shutil.rmtree(self.folder, ignore_errors=True)
            shutil.rmtree(self.folder + "-cache", ignore_errors=True)
            for d in getattr(self, "extra_dirs", []):
                shutil.rmtree(d, ignore_errors=True)

    def __enter__(self):
        return self

    def __exit__(self, *a):
        self.close()

    def request(self, method, path, data=None, login=None, **kwargs):
        environ = {(k if "." in k else k.upper()): v for k, v in kwargs.items()}       # ("wsgi.url_scheme" keeps its spelling)
        if login:
            environ["HTTP_AUTHORIZATION"] = "Basic " + base64.b64encode(login.encode("utf-8")).decode()
        environ["REQUEST_METHOD"] = method.upper()
        environ["PATH_INFO"] = path
        if data is not None:
            b = data if isinstance(data, bytes) else data.encode("utf-8")
            environ["wsgi.input"] = io.BytesIO(b)
            environ["CONTENT_LENGTH"] = str(len(b))
        environ["wsgi.errors"] = io.StringIO()
        wsgiref.util.setup_testing_defaults(environ)
        res = {}

        def start_response(status_, headers_):
            res["status"] = int(status_.split()[0])
            res["headers"] = dict(headers_)
        answers = list(self.application(environ, start_response))
        body = answers[0] if answers else b""
        try:
            text = body.decode("utf-8")
        except UnicodeDecodeError:
            text = body.decode("latin-1")
        return res["status"], res["headers"], text


def parse_multistatus(text):
    """-> {href: status_int | {prop_human_tag: (status, ET.Element)}} ; hrefs keep order in '_order'."""
    from radicale import xmlutils
    import defusedxml.ElementTree as DefusedET
    xml = DefusedET.fromstring(text)
    out = {}
    order = []
    for response in xml.findall(xmlutils.make_clark("D:response")):
        href = response.find(xmlutils.make_clark("D:href")).text
        order.append(href)
        props = {}
        for propstat in response.findall(xmlutils.make_clark("D:propstat")):
            st = int(propstat.find(xmlutils.make_clark("D:status")).text.split(" ")[1])
            for el in propstat.findall("./%s/*" % xmlutils.make_clark("D:prop")):
                props[xmlutils.make_human_tag(el.tag)] = (st, el)
        status = response.find(xmlutils.make_clark("D:status"))
        if status is not None and not props:
            out[href] = int(status.text.split(" ")[1])
        else:
            out[href] = props
    tok = xml.find(xmlutils.make_clark("D:sync-token"))
    return out, order, (tok.text if tok is not None else None)


def dump_store(app, with_text=True):
    """Full-state dump through the public storage API: {path: {"tag","props","items":{href:{uid,etag,text}}}}."""
    st = app.storage
    out = {}
    with st.acquire_lock("r"):
        def walk(path):
            res = list(st.discover(path, depth="1"))
            if not res:
                return
            root = res[0]
            from radicale import storage as rstorage
            if not isinstance(root, rstorage.BaseCollection):
                return
            meta = dict(root.get_meta())
            entry = {"tag": meta.get("tag", ""), "props": meta, "items": {}}
            out["/" + root.path if root.path else "/"] = entry
            for child in res[1:]:
                if isinstance(child, rstorage.BaseCollection):
                    walk("/" + child.path + "/")
                else:
                    d = {"uid": child.uid, "etag": child.etag, "name": child.name}
                    if with_text:
                        d["text"] = child.serialize()
                    entry["items"][child.href] = d
        walk("/")
    return out


def disk_snapshot(folder, include_hidden=False):
    """Byte-level snapshot of the collection-root (relative path -> sha1 or 'dir')."""
    root = os.path.join(folder, "collection-root")
    snap = {}
    for dp, dn, fn in os.walk(root):
        rel = os.path.relpath(dp, root)
        if not include_hidden:
            dn[:] = [d for d in dn if not d.startswith(".Radicale")]
        snap[rel] = "dir"
        for f in fn:
            if not include_hidden and (f == ".Radicale.lock"):
                continue
            p = os.path.join(dp, f)
            try:
                snap[os.path.join(rel, f)] = hashlib.sha1(open(p, "rb").read()).hexdigest()
            except OSError:
                snap[os.path.join(rel, f)] = "?"
    return snap


_RIGHTS_FILE = None


def permissive_rights():
    """config fragment: a from_file policy granting everything to everybody (plain collections at any depth)"""
    global _RIGHTS_FILE
    if _RIGHTS_FILE is None or not os.path.exists(_RIGHTS_FILE):
        f = tempfile.NamedTemporaryFile("w", prefix="rverif-rights-", suffix=".ini", delete=False)
        f.write("[all]\nuser: .*\ncollection: .*\npermissions: RrWw\n")
        f.close()
        _RIGHTS_FILE = f.name
        import atexit
        atexit.register(lambda: os.path.exists(_RIGHTS_FILE) and os.unlink(_RIGHTS_FILE))
    return {"type": "from_file", "file": _RIGHTS_FILE}
