#!/venv/bin/python
"""./check <Cxx> quick|thorough   — run one property check (DESIGN.md section 1).

exit 0: property held on everything explored (KNOWN-FINDING lines possible)
exit 1: a line `VIOLATION property=<id> replay=<path>[ no-failing-input-found]` was printed
exit 2: harness error / timeout (never a VIOLATION line)
"""
import importlib
import os
import signal
import sys
import traceback

sys.path.insert(0, os.path.dirname(os.path.abspath(__file__)))
import common  # noqa: E402


def main():
    if len(sys.argv) < 3:
        print(__doc__)
        return 2
    prop = sys.argv[1].upper()
    tier = sys.argv[2]
    if tier not in ("quick", "thorough"):
        tier = os.environ.get("VERIF_TIER", "quick")
    try:
        seed = int(os.environ.get("VERIF_SEED", "0"))
    except ValueError:
        seed = 0
    os.chdir(common.VERIF)
    budget = int(os.environ.get("VERIF_TIMEOUT", "900" if tier == "quick" else "7200"))

    def on_alarm(signum, frame):
        print("harness timeout after %d s (exit 2, no verdict)" % budget)
        os._exit(2)
    signal.signal(signal.SIGALRM, on_alarm)
    signal.alarm(budget)
    try:
        mod = importlib.import_module("props.%s" % prop.lower())
    except ImportError:
        traceback.print_exc()
        return 2
    ctx = common.Ctx(prop, tier, seed, mod.PROP_FILES, level=getattr(mod, "LEVEL", "proof"))
    try:
        ctx.prepare_lean(getattr(mod, "pre_build", None))
        mod.run(ctx)
        return ctx.finish()
    except Exception:
        traceback.print_exc()
        print("harness error (exit 2, no verdict)")
        return 2


if __name__ == "__main__":
    sys.exit(main())
