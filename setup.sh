#!/bin/sh
# Build the framework offline from files on disk: Lean libraries + model driver, system-call interposer.
set -e
cd "$(dirname "$0")"
mkdir -p evidence replays corpus
# the lock-discipline skeleton is a translation of /repo's current request handlers (C10)
python3 harness/skeleton.py >/dev/null
python3 harness/lockshape.py >/dev/null
# models, lemmas, generated skeleton, driver; the property theorems are (re)built by each check for its own
# property, so a proof that no longer checks for one property does not stop the others
( cd lean && lake build RadicaleModel RadicaleProofs Generated Driver driver 2>&1 | grep -v '^trace' | tail -5 )
( cd lean && lake build Props 2>&1 | grep -v '^trace' | tail -3 ) || echo "warning: some property theorems do not check on this tree (the checks will report them)"
if [ -f interpose/interpose.c ]; then
  gcc -O2 -shared -fPIC -o interpose/interpose.so interpose/interpose.c -ldl -lpthread
fi
test -x lean/.lake/build/bin/driver
echo setup-ok
