#!/bin/sh
# Build the framework offline from files on disk: Lean libraries + model driver, system-call interposer.
set -e
cd "$(dirname "$0")"
mkdir -p evidence replays corpus
( cd lean && lake build 2>&1 | grep -v '^trace' | tail -5 )
if [ -f interpose/interpose.c ]; then
  gcc -O2 -shared -fPIC -o interpose/interpose.so interpose/interpose.c -ldl -lpthread
fi
test -x lean/.lake/build/bin/driver
echo setup-ok
