#!/bin/sh
set -e
cd "$(dirname "$0")"
exit 0
